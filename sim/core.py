"""Common machinery: seeds, PRNG streams, fork-per-run pool with watchdog,
result aggregation, evidence writer, replay files, known findings.

Nothing in here draws from a PRNG for logging purposes or reads a clock that
influences behaviour; wall time is measured for evidence and for the batch
wall cap only (the cap can only *reduce* the number of runs explored, and the
evidence file says so when it fired).
"""
from __future__ import annotations

import faulthandler
import hashlib
import json
import os
import random
import select
import signal
import struct
import sys
import time
import traceback
from typing import Any, Callable, Dict, List, Optional

VERIF_DIR = os.path.dirname(os.path.dirname(os.path.abspath(__file__)))
REPO = os.path.realpath(os.environ.get("VERIF_REPO", "/repo"))
REPLAY_DIR = os.environ.get("VERIF_REPLAY_DIR", os.path.join(VERIF_DIR, "replays"))
EVIDENCE_DIR = os.environ.get("VERIF_EVIDENCE_DIR", os.path.join(VERIF_DIR, "evidence"))
KNOWN_FINDINGS = os.path.join(VERIF_DIR, "known_findings.json")

EXIT_OK = 0
EXIT_VIOLATION = 1
EXIT_HARNESS = 2


# ---------------------------------------------------------------- seeds

def verif_seed() -> int:
    try:
        return int(os.environ.get("VERIF_SEED", "0"))
    except ValueError:
        return 0


def run_seed(seed: int, engine: str, i: int) -> int:
    h = hashlib.sha256(f"{seed}:{engine}:{i}".encode()).digest()
    return int.from_bytes(h[:8], "big")


def stream(rseed: int, name: str) -> random.Random:
    """Independent PRNG stream of a run: adding a draw to one stream never
    shifts another."""
    h = hashlib.sha256(f"{rseed}/{name}".encode()).digest()
    return random.Random(int.from_bytes(h[:8], "big"))


def digest(obj: Any) -> str:
    return hashlib.sha256(
        json.dumps(obj, sort_keys=True, default=repr, ensure_ascii=True).encode()
    ).hexdigest()[:16]


# ---------------------------------------------------------------- repo import

def import_repo():
    """Import pydbml from the tree under test and make sure that is what we
    got.  Returns the module."""
    if REPO not in sys.path:
        sys.path.insert(0, REPO)
    import pydbml  # noqa
    f = os.path.realpath(pydbml.__file__)
    if not f.startswith(REPO + os.sep):
        raise HarnessError(f"pydbml imported from {f}, expected under {REPO}")
    return pydbml


def tree_identity() -> Dict[str, Any]:
    import subprocess
    try:
        head = subprocess.run(["git", "-C", REPO, "rev-parse", "HEAD"], capture_output=True,
                              text=True, timeout=20).stdout.strip()
        dirty = bool(subprocess.run(["git", "-C", REPO, "status", "--porcelain", "--", "pydbml"],
                                    capture_output=True, text=True, timeout=20).stdout.strip())
    except Exception:  # pragma: no cover
        head, dirty = "unknown", True
    return {"repo": REPO, "head": head, "dirty": dirty}


class HarnessError(Exception):
    """A problem in the simulator itself; never reported as a VIOLATION."""


# ---------------------------------------------------------------- aggregation

class Agg:
    """Mergeable per-batch statistics."""

    def __init__(self) -> None:
        self.counters: Dict[str, int] = {}
        self.distinct: Dict[str, set] = {}
        self.samples: List[Any] = []
        self.violations: List[Dict[str, Any]] = []
        self.harness: List[Dict[str, Any]] = []
        self.runs = 0

    def count(self, key: str, n: int = 1) -> None:
        self.counters[key] = self.counters.get(key, 0) + n

    def add_distinct(self, key: str, dig: str) -> None:
        self.distinct.setdefault(key, set()).add(dig)

    def absorb(self, res: Dict[str, Any]) -> None:
        """res: the JSON result of one run."""
        self.runs += 1
        for k, v in res.get("counters", {}).items():
            self.counters[k] = self.counters.get(k, 0) + v
        for k, v in res.get("distinct", {}).items():
            s = self.distinct.setdefault(k, set())
            if isinstance(v, list):
                s.update(v)
            else:
                s.add(v)
        if res.get("sample") is not None and len(self.samples) < 4:
            self.samples.append(res["sample"])
        if res.get("violation"):
            self.violations.append(res["violation"])
        if res.get("harness"):
            self.harness.append({"i": res.get("i"), "what": res["harness"]})

    def to_json(self) -> Dict[str, Any]:
        return {
            "counters": self.counters,
            "distinct": {k: sorted(v) for k, v in self.distinct.items()},
            "samples": self.samples,
            "violations": self.violations,
            "harness": self.harness,
            "runs": self.runs,
        }

    def merge_json(self, j: Dict[str, Any]) -> None:
        self.runs += j["runs"]
        for k, v in j["counters"].items():
            self.counters[k] = self.counters.get(k, 0) + v
        for k, v in j["distinct"].items():
            self.distinct.setdefault(k, set()).update(v)
        for s in j["samples"]:
            if len(self.samples) < 6:
                self.samples.append(s)
        self.violations.extend(j["violations"])
        self.harness.extend(j["harness"])


# ---------------------------------------------------------------- fork per run

def _write_all(fd: int, data: bytes) -> None:
    view = memoryview(data)
    while view:
        n = os.write(fd, view)
        view = view[n:]


def fork_run(fn: Callable[[], Dict[str, Any]], timeout_s: float) -> Dict[str, Any]:
    """Execute fn() in a freshly forked child and return its JSON result.
    The child never returns into the caller's stack.  A child that exceeds
    timeout_s is killed and reported as a harness stall (never as a pass)."""
    r, w = os.pipe()
    pid = os.fork()
    if pid == 0:
        code = 0
        try:
            os.close(r)
            faulthandler.enable()
            faulthandler.dump_traceback_later(max(1.0, timeout_s - 1.0), exit=False)
            try:
                res = fn()
            except BaseException:  # harness failure inside the child
                res = {"harness": "child exception: " + traceback.format_exc()[-3000:]}
            faulthandler.cancel_dump_traceback_later()
            data = json.dumps(res, default=repr).encode()
            _write_all(w, struct.pack(">Q", len(data)) + data)
            os.close(w)
        except BaseException:
            code = 3
        finally:
            os._exit(code)
    os.close(w)
    buf = bytearray()
    deadline = time.monotonic() + timeout_s
    timed_out = False
    while True:
        left = deadline - time.monotonic()
        if left <= 0:
            timed_out = True
            break
        rl, _, _ = select.select([r], [], [], min(left, 1.0))
        if rl:
            chunk = os.read(r, 1 << 16)
            if not chunk:
                break
            buf += chunk
    os.close(r)
    if timed_out:
        try:
            os.kill(pid, signal.SIGKILL)
        except ProcessLookupError:
            pass
    _, status = os.waitpid(pid, 0)
    if timed_out:
        return {"harness": f"watchdog: run exceeded {timeout_s}s wall"}
    if len(buf) < 8:
        return {"harness": f"child died without result (status {status})"}
    (n,) = struct.unpack(">Q", bytes(buf[:8]))
    if len(buf) - 8 != n:
        return {"harness": f"truncated result from child (status {status})"}
    return json.loads(bytes(buf[8:]).decode())


# ---------------------------------------------------------------- pool

def run_pool(run_fn: Callable[[int], Dict[str, Any]], indices: List[int], workers: int,
             wall_cap_s: float, per_run_timeout_s: float, tmpdir: str,
             setup_fn: Optional[Callable[[], None]] = None,
             fork_each: bool = True) -> Agg:
    """Run run_fn(i) for every i in indices, each in a freshly forked
    grandchild, on `workers` worker processes.  The result of run i depends on
    i only, so the worker count cannot change any verdict.  Returns the merged
    statistics.  Runs not started when the wall cap fires are counted under
    'wall-cap-skipped'."""
    import multiprocessing as mp
    ctx = mp.get_context("fork")
    nxt = ctx.Value("q", 0)
    t0 = time.monotonic()
    pids = []
    workers = max(1, min(workers, len(indices) or 1))
    for w in range(workers):
        pid = os.fork()
        if pid == 0:
            code = 0
            try:
                if setup_fn:
                    setup_fn()
                agg = Agg()
                while True:
                    with nxt.get_lock():
                        k = nxt.value
                        nxt.value = k + 1
                    if k >= len(indices):
                        break
                    if time.monotonic() - t0 > wall_cap_s:
                        agg.count("wall-cap-skipped")
                        continue
                    i = indices[k]
                    if fork_each:
                        res = fork_run(lambda: run_fn(i), per_run_timeout_s)
                    else:
                        try:
                            res = run_fn(i)
                        except BaseException:
                            res = {"harness": "exception: " + traceback.format_exc()[-3000:]}
                    res["i"] = i
                    agg.absorb(res)
                with open(os.path.join(tmpdir, f"w{w}.json"), "w") as f:
                    json.dump(agg.to_json(), f)
            except BaseException:
                traceback.print_exc()
                code = 3
            finally:
                os._exit(code)
        pids.append(pid)
    total = Agg()
    hard_deadline = t0 + wall_cap_s + per_run_timeout_s + 30
    for w, pid in enumerate(pids):
        while True:
            p, status = os.waitpid(pid, os.WNOHANG)
            if p:
                break
            if time.monotonic() > hard_deadline:
                os.kill(pid, signal.SIGKILL)
                os.waitpid(pid, 0)
                status = -9
                break
            time.sleep(0.02)
        path = os.path.join(tmpdir, f"w{w}.json")
        if status != 0 or not os.path.exists(path):
            total.harness.append({"i": None, "what": f"worker {w} failed with status {status}"})
            continue
        with open(path) as f:
            total.merge_json(json.load(f))
    return total


# ---------------------------------------------------------------- replay files

def write_replay(prop: str, seed: int, run_index: Any, payload: Dict[str, Any], suffix: str = "") -> str:
    os.makedirs(REPLAY_DIR, exist_ok=True)
    path = os.path.join(REPLAY_DIR, f"{prop}-{seed}-{run_index}{suffix}.json")
    with open(path, "w") as f:
        json.dump(payload, f, indent=1, default=repr)
    return path


def load_replay(path: str) -> Dict[str, Any]:
    with open(path) as f:
        return json.load(f)


# ---------------------------------------------------------------- known findings

def load_known_findings() -> List[Dict[str, Any]]:
    try:
        with open(KNOWN_FINDINGS) as f:
            return json.load(f).get("findings", [])
    except FileNotFoundError:
        return []


def match_known(prop: str, signature: str) -> Optional[Dict[str, Any]]:
    """Only `open` entries suppress, and only on an exact signature match."""
    for e in load_known_findings():
        if e.get("status") == "open" and e.get("property") == prop and e.get("signature") == signature:
            return e
    return None


# ---------------------------------------------------------------- evidence

def write_evidence(prop: str, tier: str, seed: int, level: str, coverage: Dict[str, Any],
                   wall_s: float, violations: int, assumptions: List[str]) -> str:
    os.makedirs(EVIDENCE_DIR, exist_ok=True)
    path = os.path.join(EVIDENCE_DIR, f"{prop}.json")
    doc = {
        "property_id": prop,
        "tier": tier,
        "seed": seed,
        "level": level,
        "coverage": coverage,
        "assumptions": assumptions,
        "wall_s": round(wall_s, 3),
        "violations": violations,
    }
    tmp = path + ".tmp"
    with open(tmp, "w") as f:
        json.dump(doc, f, indent=1, default=repr)
    os.replace(tmp, path)
    return path
