"""E3 profile C17 - inconsistent models are refused at render time
(fault enumeration).

From a consistent state (a C10-style world after a short prefix of edits) the
engine injects one *model corruption* (the fault) chosen from a small table of
corruption kind x way of reaching it, probes every listed observation point,
then heals the corruption and checks that all renderings return to those of a
fresh rebuild (recovery once the fault is gone).  Every table cell is counted
when it fires; the thorough tier asserts that every cell was hit.
"""
from __future__ import annotations

import os
import random
from typing import Any, Callable, Dict, List, Optional, Tuple

from . import e3_c10 as C10
from .e3_engine import Env, Violation, world_from_json, world_to_json, construct_violation
from .refmodel import World

PROP = "C17"
RUNS = {"quick": 30000, "thorough": 600000}
WALL_CAP = {"quick": 300.0, "thorough": 3000.0}
PRUNE = False

AME, TNF, DBE, UDE = "AttributeMissingError", "TableNotFoundError", "DBMLError", "UnknownDatabaseError"

# ---- the fault table: (cell id prefix, list of (reach)) ; probes are fixed per kind
CELLS: List[str] = []
for _k, _attr in (("table", "name"), ("column", "name"), ("column", "type"), ("enum", "name"), ("enum", "schema"),
                  ("enumitem", "name")):
    for _reach in ("assign", "ctor"):
        CELLS.append(f"unset/{_k}.{_attr}/{_reach}")
for _reach in ("never-added", "delete-obj", "delete-pos", "rejected-add", "delete-equal-twin"):
    CELLS.append(f"index-detached/{_reach}")
# double faults: the detached endpoint column / the detached table's column additionally lacks an attribute
for _extra in ("type-unset", "name-unset"):
    for _side in ("col1", "col2"):
        for _inl in ("inline", "block"):
            CELLS.append(f"endpoint-detached/delete-obj+{_extra}/{_side}/{_inl}")
CELLS.append("detached-lookup/join-table-of-contained-m2m")
CELLS.append("detached-lookup/abstract-table-never-added")
CELLS.append("detached-lookup/column-of-detached-abstract-table")
CELLS.append("detached-lookup/table-never-added+nameless-column")
CELLS.append("detached-lookup/column-without-table+type-unset")
CELLS.append("detached-lookup/column-of-detached-table+type-unset")
CELLS.append("endpoint-detached/delete-equal-twin/col1/block")
CELLS.append("endpoint-detached/delete-equal-twin/col2/block")
for _reach in ("never-attached", "delete-obj", "delete-pos"):
    for _side in ("col1", "col2"):
        for _inl in ("inline", "block"):
            CELLS.append(f"endpoint-detached/{_reach}/{_side}/{_inl}")
for _side in ("col1", "col2"):
    CELLS.append(f"endpoint-detached/aliased-list/{_side}/block")
for _reach in ("ctor", "moved-column", "assign-list", "ctor-twin-table"):
    for _side in ("col1", "col2"):
        for _inl in ("inline", "block"):
            CELLS.append(f"mixed/{_reach}/{_side}/{_inl}")
for _reach in ("ctor", "assign"):
    CELLS.append(f"composite-inline/{_reach}")
# sides of different lengths: the column that was never attached sits beyond the end of the shorter side
for _side in ("col1", "col2"):
    CELLS.append(f"endpoint-detached/never-attached-uneven/{_side}/block")
# one side mixes two tables, the other side was emptied afterwards (in place, or by assigning an empty list)
for _how in ("del-slice", "assign-empty"):
    CELLS.append(f"mixed/other-side-emptied-{_how}/col1/block")
CELLS.append("detached-lookup/table-deleted-next-to-mixed-reference")
for _reach in ("table-never-added", "table-deleted", "table-deleted-by-equal-twin", "column-of-detached-table",
               "column-without-table"):
    CELLS.append(f"detached-lookup/{_reach}")


class Skip(Exception):
    """The drawn cell cannot be realised in the current state."""


class C17Engine(C10.C10Engine):
    def __init__(self, env: Env, world: World) -> None:
        super().__init__(env, world, "api")
        self.readers_seed: Optional[int] = None
        self.readers_n = 0

    # ------------------------------------------------------------ probing
    def expect_raises(self, cell: str, probe: str, f: Callable[[], Any], want: str, ctx: Any) -> None:
        try:
            r = f()
        except Exception as ex:
            got = type(ex).__name__
            if got not in (want if isinstance(want, tuple) else (want,)):
                raise Violation(PROP, "refuse", {"after": ctx, "cell": cell, "probe": probe, "expected": want,
                                                 "raised": repr(ex)[:200]}, f"refuse:{cell}:{probe}:raised-{got}")
            self.count(f"fault:{cell}")
            self.count(f"probe:{cell}:{probe}")
            if self.readers_seed is not None:
                self.concurrent_readers(cell, probe, f, want, ctx)
            return
        raise Violation(PROP, "refuse", {"after": ctx, "cell": cell, "probe": probe, "expected": want,
                                         "returned": repr(r)[:300]}, f"refuse:{cell}:{probe}:returned")

    def concurrent_readers(self, cell: str, probe: str, f: Callable[[], Any], want: Any, ctx: Any) -> None:
        """The same probe asked by two simulated threads at once (two readers of one model, pre-empted at
        seeded line events inside pydbml): each of them has to be refused like a single reader."""
        import pydbml
        from . import sched as S
        from .core import HarnessError
        self.readers_n += 1
        rng = random.Random(self.readers_seed * 1000003 + self.readers_n)
        pol = S.Bernoulli(rng, rng.choice([0.02, 0.08, 0.25, 0.6]))
        outs: List[Any] = [None, None]

        def mk(i: int) -> Callable[[Any], None]:
            def fn(th: Any) -> None:
                try:
                    outs[i] = ["returned", repr(f())[:300]]
                except Exception as ex:
                    outs[i] = ["raised", type(ex).__name__, repr(ex)[:200]]
            return fn
        sc = S.Scheduler(pol, (os.path.dirname(os.path.realpath(pydbml.__file__)) + os.sep,), (), step_cap=2_000_000)
        S.set_active(sc)
        try:
            sc.run([mk(0), mk(1)], watchdog_s=60.0)
        except RuntimeError as ex:
            raise HarnessError(f"concurrent readers: {ex}")
        finally:
            S.set_active(None)
        if sc.broken or sc.deadlock or any(t.error is not None for t in sc.threads):
            raise HarnessError(f"concurrent readers: {sc.broken or sc.deadlock or [t.error for t in sc.threads]}")
        self.count("fault:concurrent-readers")
        self.count("fault:pre-emption", len(sc.voluntary))
        wants = want if isinstance(want, tuple) else (want,)
        for i, o in enumerate(outs):
            if o[0] == "returned":
                raise Violation(PROP, "refuse", {"after": ctx, "cell": cell, "probe": probe, "expected": want, "reader": i,
                                                 "returned": o[1], "other_reader": outs[1 - i],
                                                 "schedule": sc.schedule_json()},
                                f"refuse:{cell}:{probe}:returned-to-one-of-two-concurrent-readers")
            if o[1] not in wants:
                raise Violation(PROP, "refuse", {"after": ctx, "cell": cell, "probe": probe, "expected": want, "reader": i,
                                                 "raised": o[2]},
                                f"refuse:{cell}:{probe}:raised-{o[1]}-under-concurrent-readers")

    def raw_subclass_renderer(self) -> Any:
        C = self.env.C
        base = self.env.DefaultSQL
        reg = dict(base.model_renderers)
        for T in (C.Table, C.Column, C.Enum, C.EnumItem):
            reg[T] = (lambda model, _n=T.__name__: f"<raw:{_n}:{getattr(model, 'name', None)}>")
        return type("RawDictSQLRenderer", (base,), {"model_renderers": reg, "__module__": "verif.sim"})

    # ------------------------------------------------------------ one injection cycle
    def cycle(self, cell: str, g: random.Random, ctx: Any) -> None:
        """inject -> probe -> heal.  Raises Skip when not realisable."""
        w, m, real, C = self.w, self.w.m, self.real, self.env.C
        db = self.db
        d = m[db]
        rdb = real[db]
        parts = cell.split("/")
        kind = parts[0]
        tables = d["tables"]

        if kind == "unset":
            target, reach = parts[1], parts[2]
            k, attr = target.split(".")
            if reach == "assign":
                if k == "table":
                    h = g.choice(tables)
                    objs = [("self", real[h]), ("db", rdb)]
                elif k == "column":
                    t = g.choice(tables)
                    h = g.choice(m[t]["cols"])
                    objs = [("self", real[h]), ("table", real[t]), ("db", rdb)]
                elif k == "enum":
                    if not d["enums"]:
                        raise Skip
                    h = g.choice(d["enums"])
                    objs = [("self", real[h]), ("db", rdb)]
                else:
                    if not d["enums"]:
                        raise Skip
                    e = g.choice(d["enums"])
                    n = g.randrange(len(m[e]["items"]))
                    objs = [("self", real[e].items[n]), ("enum", real[e]), ("db", rdb)]
                o = objs[0][1]
                old = getattr(o, attr)
                setattr(o, attr, None)
                try:
                    for pn, po in objs:
                        self.expect_raises(cell, pn + ".sql", lambda po=po: po.sql, AME, ctx)
                    if g.random() < 0.5:
                        # the same element under a user's SQL renderer: a subclass of the default one whose registry
                        # was filled directly (dict entries, not the decorator).  The required-attribute check
                        # belongs to rendering, whoever's handler produces the text.
                        saved_r = rdb.sql_renderer
                        rdb.sql_renderer = self.raw_subclass_renderer()
                        try:
                            self.expect_raises(cell, "self.sql[subclass-renderer-with-own-dict-entries]",
                                               lambda: o.sql, AME, ctx)
                        finally:
                            rdb.sql_renderer = saved_r
                finally:
                    setattr(o, attr, old)
            else:  # ctor: a new object built with None in place, attached, probed, removed again
                if k == "table":
                    o = C.Table(None, columns=[C.Column("id", "int")])
                    rdb.add(o)
                    try:
                        for pn, po in (("self", o), ("db", rdb)):
                            self.expect_raises(cell, pn + ".sql", lambda po=po: po.sql, AME, ctx)
                    finally:
                        rdb.tables.remove(o) if any(x is o for x in rdb.tables) else None
                        o.database = None
                elif k == "column":
                    t = g.choice(tables)
                    o = C.Column(None, "int") if attr == "name" else C.Column("zz_none", None)
                    real[t].add_column(o)
                    try:
                        for pn, po in (("self", o), ("table", real[t]), ("db", rdb)):
                            self.expect_raises(cell, pn + ".sql", lambda po=po: po.sql, AME, ctx)
                    finally:
                        real[t].columns[:] = [c for c in real[t].columns if c is not o]
                        o.table = None
                elif k == "enum":
                    o = C.Enum(None, ["a"]) if attr == "name" else C.Enum("zz_none", ["a"], schema=None)
                    rdb.add(o)
                    try:
                        for pn, po in (("self", o), ("db", rdb)):
                            self.expect_raises(cell, pn + ".sql", lambda po=po: po.sql, AME, ctx)
                    finally:
                        rdb.enums[:] = [x for x in rdb.enums if x is not o]
                        o.database = None
                else:
                    if not d["enums"]:
                        raise Skip
                    e = g.choice(d["enums"])
                    o = C.EnumItem(None)
                    real[e].items.append(o)
                    try:
                        for pn, po in (("self", o), ("enum", real[e]), ("db", rdb)):
                            self.expect_raises(cell, pn + ".sql", lambda po=po: po.sql, AME, ctx)
                    finally:
                        real[e].items[:] = [x for x in real[e].items if x is not o]
            return

        if kind == "index-detached":
            reach = parts[1]
            if reach == "never-added":
                t = g.choice(tables)
                o = C.Index([real[g.choice(m[t]["cols"])]], name="never")
                self.expect_raises(cell, "index.sql", lambda: o.sql, AME, ctx)
                return
            if reach == "rejected-add":
                # an index over a foreign column is refused by add_index; it stays unattached
                if len(tables) < 2:
                    raise Skip
                t, t2 = g.sample(tables, 2)
                subs = [real[g.choice(m[t2]["cols"])]]
                if g.random() < 0.5:
                    subs.insert(0, real[g.choice(m[t]["cols"])])
                o = C.Index(subs, name="refused")
                try:
                    real[t].add_index(o)
                    raise Skip  # accepted (not this property's business): nothing to probe
                except Skip:
                    real[t].indexes[:] = [x for x in real[t].indexes if x is not o]
                    o.table = None
                    raise
                except Exception:
                    pass
                try:
                    self.expect_raises(cell, "index.sql", lambda: o.sql, AME, ctx)
                finally:
                    o.table = None
                return
            cand = [(t, i) for t in tables for i in m[t]["idxs"]]
            if not cand:
                raise Skip
            t, i = g.choice(cand)
            pos = m[t]["idxs"].index(i)
            if reach == "delete-equal-twin":
                # deleted through an equal but not identical Index object (index equality ignores the owner)
                d_i = m[i]
                subs = [real[s[1]] if s[0] == "col" else (C.Expression(s[1]) if s[0] == "expr" else s[1])
                        for s in d_i["subjects"]]
                twin = C.Index(subs, name=d_i["name"], unique=d_i["unique"], type=d_i["type"], pk=d_i["pk"],
                               note=d_i["note"] or None, comment=d_i["comment"])
                before = list(real[t].indexes)
                try:
                    real[t].delete_index(twin)
                except Exception:
                    raise Skip   # this implementation treats an equal twin as absent: nothing was detached
                gone = [x for x in before if not any(x is y for y in real[t].indexes)]
                if len(gone) != 1:
                    raise Violation(PROP, "refuse", {"after": ctx, "cell": cell, "what": "delete_index(equal twin) "
                                    f"removed {len(gone)} indexes"}, f"refuse:{cell}:removed-{len(gone)}")
                gh = next(h for h in m[t]["idxs"] if real[h] is gone[0])
                try:
                    self.expect_raises(cell, "index.sql", lambda: gone[0].sql, AME, ctx)
                finally:
                    real[t].indexes[:] = [x for x in real[t].indexes if x is not gone[0]]
                    gone[0].table = None
                    real[t].add_index(gone[0])
                    m[t]["idxs"].remove(gh)
                    m[t]["idxs"].append(gh)
                return
            if reach == "delete-obj":
                if any(w.idx_content(x) == w.idx_content(i) for x in m[t]["idxs"] if x != i):
                    raise Skip
                real[t].delete_index(real[i])
            else:
                real[t].delete_index(pos)
            try:
                self.expect_raises(cell, "index.sql", lambda: real[i].sql, AME, ctx)
            finally:
                real[t].add_index(real[i])      # heal: re-attached at the end
                m[t]["idxs"].remove(i)
                m[t]["idxs"].append(i)
            return

        if kind == "endpoint-detached":
            reach, side, inl = parts[1], parts[2], parts[3] == "inline"
            extra = None
            if "+" in reach:
                reach, extra = reach.split("+")
            t1, t2 = g.choice(tables), g.choice(tables)
            if reach == "never-attached":
                loose = C.Column("loose", "int")
                other = real[g.choice(m[t2]["cols"])]
                o = C.Reference(g.choice([">", "<", "-"]), loose if side == "col1" else other,
                                other if side == "col1" else loose, inline=inl)
                try:
                    rdb.add(o)
                    added = True
                except Exception:
                    added = False
                try:
                    self.expect_raises(cell, "ref.sql", lambda: o.sql, TNF, ctx)
                    self.expect_raises(cell, "ref.dbml", lambda: o.dbml, TNF, ctx)
                finally:
                    if added:
                        rdb.refs[:] = [x for x in rdb.refs if x is not o]
                        o.database = None
                return
            if reach == "never-attached-uneven":
                loose = C.Column("loose", "int")
                long_side = [real[g.choice(m[t2]["cols"])], loose]
                short_side = [real[g.choice(m[t1]["cols"])]]
                o = C.Reference(g.choice([">", "<", "-"]), long_side if side == "col1" else short_side,
                                short_side if side == "col1" else long_side)
                self.expect_raises(cell, "ref.sql", lambda: o.sql, TNF, ctx)
                self.expect_raises(cell, "ref.dbml", lambda: o.dbml, TNF, ctx)
                return
            if reach == "delete-equal-twin":
                # the endpoint column is deleted through an equal column of a same-named twin table
                cand = [r for r in d["refs"]]
                if not cand:
                    raise Skip
                r = g.choice(cand)
                c = g.choice(m[r][side])
                t = m[c]["table"]
                td = m[t]
                if any(w.col_content(x) == w.col_content(c) for x in td["cols"] if x != c):
                    raise Skip
                twin_t = C.Table(td["name"], schema=td["schema"])
                cd = m[c]
                ty = cd["type"]
                dv = cd["default"]
                twin_c = C.Column(cd["name"], real[ty[1]] if isinstance(ty, list) else ty, unique=cd["unique"],
                                  not_null=cd["not_null"], pk=cd["pk"], autoinc=cd["autoinc"],
                                  default=C.Expression(dv[1]) if isinstance(dv, list) else dv, note=cd["note"] or None,
                                  comment=cd["comment"], properties=dict(cd["properties"]) or None)
                twin_t.add_column(twin_c)
                before = list(real[t].columns)
                try:
                    real[t].delete_column(twin_c)
                except Exception:
                    raise Skip
                gone = [x for x in before if not any(x is y for y in real[t].columns)]
                if len(gone) != 1 or gone[0] is not real[c]:
                    raise Skip
                try:
                    self.expect_raises(cell, "ref.sql", lambda: real[r].sql, TNF, ctx)
                    self.expect_raises(cell, "ref.dbml", lambda: real[r].dbml, TNF, ctx)
                finally:
                    real[t].columns[:] = [x for x in real[t].columns if x is not real[c]]
                    real[c].table = None
                    real[t].add_column(real[c])
                    m[t]["cols"].remove(c)
                    m[t]["cols"].append(c)
                return
            if reach == "aliased-list":
                # the caller passes a table's own column list to the constructor, later a column is deleted
                ta = g.choice(tables)
                n = len(m[ta]["cols"])
                others = [t for t in tables if t != ta and len(m[t]["cols"]) >= n]
                if not others:
                    raise Skip
                tb = g.choice(others)
                lst = real[ta].columns
                other = [real[x] for x in m[tb]["cols"][:n]]
                o = C.Reference(g.choice([">", "<", "-"]), lst if side == "col1" else other, other if side == "col1" else lst)
                k = g.randrange(n)
                h = m[ta]["cols"][k]
                try:
                    o.sql  # consistent before the deletion
                except Exception:
                    pass
                real[ta].delete_column(real[h])
                try:
                    self.expect_raises(cell, "ref.sql", lambda: o.sql, TNF, ctx)
                    self.expect_raises(cell, "ref.dbml", lambda: o.dbml, TNF, ctx)
                finally:
                    real[ta].add_column(real[h])
                    m[ta]["cols"].remove(h)
                    m[ta]["cols"].append(h)
                return
            # a reference of the database loses an endpoint column through delete_column
            cand = [r for r in d["refs"] if m[r]["inline"] == inl or True]
            if not cand:
                raise Skip
            r = g.choice(cand)
            c = g.choice(m[r][side])
            t = m[c]["table"]
            pos = m[t]["cols"].index(c)
            old_inline = real[r].inline
            if len(m[r]["col1"]) == 1 and m[r]["type"] != "<>":
                real[r].inline = inl
            elif inl:
                raise Skip
            if reach == "delete-obj":
                real[t].delete_column(real[c])
            else:
                real[t].delete_column(pos)
            saved_attr = None
            if extra:
                attr = "type" if extra == "type-unset" else "name"
                saved_attr = (attr, getattr(real[c], attr))
                setattr(real[c], attr, None)
            try:
                self.expect_raises(cell, "ref.sql", lambda: real[r].sql, TNF, ctx)
                self.expect_raises(cell, "ref.dbml", lambda: real[r].dbml, TNF, ctx)
                if not real[r].inline and not extra:
                    # a non-inline reference contained in the database is rendered as an element of the database
                    # text: rendering the database renders the reference (another inconsistent reference of the
                    # database may be refused first, hence either refusal error)
                    self.expect_raises(cell, "db.sql", lambda: rdb.sql, (TNF, DBE), ctx)
                    self.expect_raises(cell, "db.dbml", lambda: rdb.dbml, (TNF, DBE), ctx)
                if side == "col2" and real[r].inline and not extra and len(m[r]["col1"]) == 1:
                    # an inline reference is rendered as a setting of its col1 column: rendering the column (and
                    # the table around it) renders the reference, so it has to be refused there as well
                    oc = m[r]["col1"][0]
                    ot = m[oc]["table"]
                    if ot is not None and m[ot]["db"] == db and oc != c:
                        # (another reference of the database may be hit first and be refused as mixed)
                        self.expect_raises(cell, "owner-column.dbml", lambda: real[oc].dbml, (TNF, DBE), ctx)
                        self.expect_raises(cell, "owner-table.dbml", lambda: real[ot].dbml, (TNF, DBE), ctx)
                        if m[r]["type"] in (">", "-") and not m[ot]["abstract"]:   # (abstract tables carry no FOREIGN KEY lines)
                            # ... and in SQL the inline reference is a FOREIGN KEY line of the CREATE TABLE of
                            # its source table (col1's table for '>' and '-')
                            self.expect_raises(cell, "owner-table.sql", lambda: real[ot].sql, (TNF, DBE), ctx)
            finally:
                if saved_attr:
                    setattr(real[c], saved_attr[0], saved_attr[1])
                real[t].add_column(real[c])     # heal: re-attached at the end
                m[t]["cols"].remove(c)
                m[t]["cols"].append(c)
                real[r].inline = m[r]["inline"]
            return

        if kind == "mixed":
            reach, side, inl = parts[1], parts[2], parts[3] == "inline"
            if len(tables) < 2:
                raise Skip
            ta, tb = g.sample(tables, 2)
            tc = g.choice(tables)
            ca, cb = real[g.choice(m[ta]["cols"])], real[g.choice(m[tb]["cols"])]
            if reach == "ctor-twin-table":
                # the second table is a different object with the same schema and name (e.g. from another
                # version of the schema), not part of the database
                twin = C.Table(real[ta].name, schema=real[ta].schema,
                               columns=[C.Column("id", "int"), C.Column("twin_only", "text")])
                cb = twin.columns[g.randrange(2)]
                reach = "ctor"
            if len(m[tc]["cols"]) < 2 and not inl:
                cc = [real[m[tc]["cols"][0]]] * 2
            else:
                cc = [real[x] for x in (m[tc]["cols"] * 2)[:2]]
            mixed_side = [ca, cb]
            # inline references are single-column on the referenced side (col2); a block reference is composite
            clean_side = [cc[0]] if (inl and side == "col1") else cc
            if inl and side == "col2":
                clean_side = [cc[0]]
            typ = g.choice([">", "<", "-"])
            if reach == "ctor":
                o = C.Reference(typ, mixed_side if side == "col1" else clean_side,
                                clean_side if side == "col1" else mixed_side, inline=inl)
                heal: Callable[[], None] = lambda: None
            elif reach.startswith("other-side-emptied"):
                o = C.Reference(typ, mixed_side, list(clean_side))
                if reach.endswith("del-slice"):
                    del o.col2[:]
                else:
                    o.col2 = []
                self.expect_raises(cell, "ref.table1", lambda: o.table1, DBE, ctx)
                self.expect_raises(cell, "ref.table2", lambda: o.table2, DBE, ctx)
                self.expect_raises(cell, "ref.dbml", lambda: o.dbml, DBE, ctx)
                return
            elif reach == "assign-list":
                o = C.Reference(typ, [ca] if side == "col1" else clean_side, clean_side if side == "col1" else [ca],
                                inline=inl)
                setattr(o, side, mixed_side)
                heal = lambda: None
            else:  # moved-column: a consistent composite side becomes mixed because one column moves to another table
                if len(m[ta]["cols"]) < 2:
                    raise Skip
                h1, h2 = m[ta]["cols"][0], m[ta]["cols"][1]
                if any(m[x]["name"] == m[h2]["name"] for x in m[tb]["cols"]):
                    raise Skip
                good = [real[h1], real[h2]]
                o = C.Reference(typ, good if side == "col1" else clean_side, clean_side if side == "col1" else good,
                                inline=inl)
                try:
                    o.table1, o.table2  # consistent (and validated once) before the move
                except Exception:
                    pass
                real[ta].delete_column(real[h2])
                real[tb].add_column(real[h2])

                def heal() -> None:
                    real[tb].delete_column(real[h2])
                    real[ta].add_column(real[h2])
                    m[ta]["cols"].remove(h2)
                    m[ta]["cols"].append(h2)
            try:
                self.expect_raises(cell, "ref.table1", lambda: o.table1, DBE, ctx)
                self.expect_raises(cell, "ref.table2", lambda: o.table2, DBE, ctx)
                self.expect_raises(cell, "ref.dbml", lambda: o.dbml, DBE, ctx)
                if inl and side == "col1" and parts[1] in ("ctor", "assign-list"):
                    # contained in the database, the inline reference is reached through its col1 columns
                    try:
                        rdb.add(o)
                        added = True
                    except Exception:
                        added = False
                    if added:
                        try:
                            self.expect_raises(cell, "owner-column.dbml", lambda: ca.dbml, (DBE, TNF), ctx)
                        finally:
                            rdb.refs[:] = [x for x in rdb.refs if x is not o]
                            o.database = None
            finally:
                heal()
            return

        if kind == "composite-inline":
            reach = parts[1]
            cand = [t for t in tables if len(m[t]["cols"]) >= 2]
            if not cand:
                raise Skip
            ta, tb = g.choice(cand), g.choice(cand)
            c1 = [real[x] for x in m[ta]["cols"][:2]]
            c2 = [real[x] for x in m[tb]["cols"][:2]]
            typ = g.choice([">", "<", "-"])
            if reach == "ctor":
                o = C.Reference(typ, c1, c2, inline=True)
            else:
                o = C.Reference(typ, c1, c2)
                o.dbml  # fine while not inline
                o.inline = True
            self.expect_raises(cell, "ref.dbml", lambda: o.dbml, DBE, ctx)
            return

        if kind == "detached-lookup":
            reach = parts[1]
            if reach == "join-table-of-contained-m2m":
                # the generated join table of a many-to-many reference is in no database
                if len(tables) < 1:
                    raise Skip
                ta, tb = g.choice(tables), g.choice(tables)
                o = C.Reference("<>", real[g.choice(m[ta]["cols"])], real[g.choice(m[tb]["cols"])], name="jt_probe")
                try:
                    rdb.add(o)
                except Exception:
                    raise Skip
                try:
                    jt = o.join_table
                    self.expect_raises(cell, "table.get_refs", lambda: jt.get_refs(), UDE, ctx)
                    self.expect_raises(cell, "column.get_refs", lambda: jt.columns[0].get_refs(), UDE, ctx)
                finally:
                    rdb.refs[:] = [x for x in rdb.refs if x is not o]
                    o.database = None
            elif reach == "abstract-table-never-added":
                o = C.Table("never", columns=[C.Column("id", "int")], abstract=True)
                self.expect_raises(cell, "table.get_refs", lambda: o.get_refs(), UDE, ctx)
            elif reach == "column-of-detached-abstract-table":
                o = C.Table("never", columns=[C.Column("id", "int")], abstract=True)
                self.expect_raises(cell, "column.get_refs", lambda: o.columns[0].get_refs(), UDE, ctx)
            elif reach == "table-never-added+nameless-column":
                o = C.Table("never", columns=[C.Column("id", "int"), C.Column(None, "int")])
                self.expect_raises(cell, "table.get_refs", lambda: o.get_refs(), UDE, ctx)
            elif reach == "column-without-table+type-unset":
                o = C.Column("alone", None)
                self.expect_raises(cell, "column.get_refs", lambda: o.get_refs(), TNF, ctx)
            elif reach == "column-of-detached-table+type-unset":
                o = C.Table("never", columns=[C.Column("id", None)])
                self.expect_raises(cell, "column.get_refs", lambda: o.columns[0].get_refs(), UDE, ctx)
            elif reach == "table-never-added":
                o = C.Table("never", columns=[C.Column("id", "int")])
                self.expect_raises(cell, "table.get_refs", lambda: o.get_refs(), UDE, ctx)
            elif reach == "table-deleted":
                t = g.choice(tables)
                pos = d["tables"].index(t)
                rdb.delete(real[t])
                try:
                    self.expect_raises(cell, "table.get_refs", lambda: real[t].get_refs(), UDE, ctx)
                    self.expect_raises(cell, "column.get_refs", lambda: real[m[t]["cols"][0]].get_refs(), UDE, ctx)
                finally:
                    rdb.add(real[t])            # heal: re-added at the end
                    d["tables"].remove(t)
                    d["tables"].append(t)
            elif reach == "table-deleted-next-to-mixed-reference":
                # double fault: the database holds a reference one side of which mixes two tables while a table is
                # deleted.  Whatever the delete call does, a table that is no longer among the database's tables is
                # detached and has to say so.
                if len(tables) < 2:
                    raise Skip
                ta, tb = g.sample(tables, 2)
                tc = g.choice(tables)
                o = C.Reference(g.choice([">", "<", "-"]),
                                [real[g.choice(m[ta]["cols"])], real[g.choice(m[tb]["cols"])]],
                                [real[x] for x in (m[tc]["cols"] * 2)[:2]])
                try:
                    rdb.add(o)
                except Exception:
                    raise Skip
                t = g.choice(tables)
                try:
                    try:
                        rdb.delete(real[t])
                    except Exception:
                        self.count("probe:delete-next-to-mixed-reference-raised")
                    if any(x is real[t] for x in rdb.tables):
                        rdb.refs[:] = [x for x in rdb.refs if x is not o]
                        o.database = None
                        raise Skip
                    try:
                        self.expect_raises(cell, "table.get_refs", lambda: real[t].get_refs(), UDE, ctx)
                        self.expect_raises(cell, "column.get_refs", lambda: real[m[t]["cols"][0]].get_refs(), UDE, ctx)
                    finally:
                        rdb.refs[:] = [x for x in rdb.refs if x is not o]
                        o.database = None
                        real[t].database = None     # (a half-finished delete may have left it set)
                        rdb.add(real[t])            # heal: re-added at the end
                        d["tables"].remove(t)
                        d["tables"].append(t)
                except Skip:
                    raise
            elif reach == "table-deleted-by-equal-twin":
                # the table is deleted through an equal but not identical Table object
                cand_t = [x for x in tables if not m[x]["idxs"]]
                if not cand_t:
                    raise Skip
                t = g.choice(cand_t)
                td = m[t]
                cols = []
                for c in td["cols"]:
                    cd = m[c]
                    ty = cd["type"]
                    dv = cd["default"]
                    cols.append(C.Column(cd["name"], real[ty[1]] if isinstance(ty, list) else ty, unique=cd["unique"],
                                         not_null=cd["not_null"], pk=cd["pk"], autoinc=cd["autoinc"],
                                         default=C.Expression(dv[1]) if isinstance(dv, list) else dv,
                                         note=cd["note"] or None, comment=cd["comment"],
                                         properties=dict(cd["properties"]) or None))
                twin = C.Table(td["name"], schema=td["schema"], alias=td["alias"], columns=cols,
                               header_color=td["header_color"], comment=td["comment"], abstract=td["abstract"],
                               note=td["note"] or None, properties=dict(td["properties"]) or None)
                before = list(rdb.tables)
                try:
                    rdb.delete(twin)
                except Exception:
                    raise Skip   # an equal twin is treated as absent by this implementation
                gone = [x for x in before if not any(x is y for y in rdb.tables)]
                if len(gone) != 1 or gone[0] is not real[t]:
                    raise Skip
                try:
                    self.expect_raises(cell, "table.get_refs", lambda: real[t].get_refs(), UDE, ctx)
                    self.expect_raises(cell, "column.get_refs", lambda: real[m[t]["cols"][0]].get_refs(), UDE, ctx)
                finally:
                    real[t].database = None
                    rdb.add(real[t])
                    d["tables"].remove(t)
                    d["tables"].append(t)
            elif reach == "column-of-detached-table":
                o = C.Table("never", columns=[C.Column("id", "int")])
                self.expect_raises(cell, "column.get_refs", lambda: o.columns[0].get_refs(), UDE, ctx)
            else:
                o = C.Column("alone", "int")
                self.expect_raises(cell, "column.get_refs", lambda: o.get_refs(), TNF, ctx)
            return
        raise ValueError(cell)


# ---------------------------------------------------------------------- run / replay

def run_ops(env: Env, wcomp: Dict[str, Any], ops: List[List[Any]]) -> Dict[str, Any]:
    """ops: C10 edit ops, or ["inject", cell, subseed]."""
    try:
        eng = C17Engine(env, world_from_json(wcomp["w"]))
    except Exception as ex:
        bad = construct_violation(PROP, ex, "api")
        if bad is None:
            raise
        return bad
    res: Dict[str, Any] = {"violation": None}
    try:
        pre = C10._initial_checks(eng)
    except Violation as v0:   # a C10 matter (construction renders differently), not C17's
        pre = "initial-render-mismatch: " + str(v0.signature)
    if pre:
        res.update({"precondition": pre, "counters": {"precondition-discarded": 1}, "trace": []})
        return res
    try:
        for idx, op in enumerate(ops):
            ctx = {"index": idx, "op": op}
            if op[0] == "inject":
                try:
                    # one cycle in seven is probed by two concurrent readers as well (decided by the sub-seed)
                    eng.readers_seed = op[2] if op[2] % 7 == 0 else None
                    eng.cycle(op[1], random.Random(op[2]), ctx)
                    eng.trace.append("inject:rejected")
                except Skip:
                    eng.count("skip:" + op[1])
                    continue
                # recovery: once the fault is healed every rendering equals a fresh rebuild's.  (Skipped after a
                # seeded half of the cycles: the comparison evaluates successful database renderings, which can
                # clear state that a refused rendering left behind before the next fault is probed.)
                if len(op) < 4 or op[3]:
                    try:
                        eng.compare(ctx)
                    except Violation as v:
                        raise Violation(PROP, "recovery", v.detail, "recovery-after:" + op[1].split("/")[0])
                    eng.count("probe:recovered-after-heal")
            else:
                eng.step(op, idx, False)
    except C10.Abandon:
        eng.count("abandoned:unexpected-accept")
    except Violation as v:
        res["violation"] = {"property": PROP, "oracle": v.oracle, "signature": v.signature, "detail": v.detail}
    res["counters"] = eng.counters
    res["trace"] = eng.trace
    return res


def generate(env: Env, rseed: int, thorough: bool):
    from .core import stream
    g = stream(rseed, "workload")
    world = C10.gen_world(stream(rseed, "universe"), False)
    wj = world_to_json(world)
    try:
        eng = C17Engine(env, world)
    except Exception as ex:
        bad = construct_violation(PROP, ex, "api")
        if bad is None:
            raise
        return {"w": wj, "via": "api"}, [], bad
    res: Dict[str, Any] = {"violation": None}
    try:
        pre = C10._initial_checks(eng)
    except Violation as v0:   # a C10 matter (construction renders differently), not C17's
        pre = "initial-render-mismatch: " + str(v0.signature)
    if pre:
        res.update({"precondition": pre, "trace": [], "counters": {"precondition-discarded": 1}})
        return {"w": wj, "via": "api"}, [], res
    ops: List[List[Any]] = []
    # plan: a prefix of edits, then injections interleaved with further edits
    plan: List[Any] = []
    for _ in range(g.choice([0, 0, 2, 5, 10])):
        plan.append("edit")
    ncyc = g.choice([1, 2, 4, 8])
    # stratified choice of cells: the run index walks through the table, the rest is random
    start = rseed % len(CELLS)
    for k in range(ncyc):
        plan.append(("inject", CELLS[(start + k * 7) % len(CELLS)] if k == 0 or g.random() < 0.5 else g.choice(CELLS)))
        if g.random() < 0.4:
            plan.append("edit")
    op: List[Any] = []
    try:
        for item in plan:
            if item == "edit":
                for _try in range(5):
                    op = C10.draw_op(g, eng)
                    if op[0] in ("render", "render_all") and g.random() < 0.5:
                        continue
                    if op[0] == "share_note":
                        continue    # C10's business (and its known finding), not part of C17's prefixes
                    if eng.step(op, len(ops), False) != "veto":
                        ops.append(op)
                        break
            else:
                op = ["inject", item[1], g.randrange(1 << 30), g.random() < 0.5]
                ctx = {"index": len(ops), "op": op}
                try:
                    eng.readers_seed = op[2] if op[2] % 7 == 0 else None
                    eng.cycle(op[1], random.Random(op[2]), ctx)
                except Skip:
                    eng.count("skip:" + op[1])
                    continue
                ops.append(op)
                eng.trace.append("inject:rejected")
                if op[3]:
                    try:
                        eng.compare(ctx)
                    except Violation as v:
                        raise Violation(PROP, "recovery", v.detail, "recovery-after:" + op[1].split("/")[0])
                    eng.count("probe:recovered-after-heal")
    except C10.Abandon:
        eng.count("abandoned:unexpected-accept")
    except Violation as v:
        if not ops or ops[-1] is not op:
            ops.append(op)
        res["violation"] = {"property": PROP, "oracle": v.oracle, "signature": v.signature, "detail": v.detail}
    res["counters"] = eng.counters
    res["trace"] = eng.trace
    res["state_digest"] = [eng.trace, ops]
    return {"w": wj, "via": "api"}, ops, res


def nontrivial(res: Dict[str, Any]) -> bool:
    return any(k.startswith("fault:") for k in res["counters"])


def coverage(agg: Any, tier: str) -> Dict[str, Any]:
    c = agg.counters
    hit = {cell: c.get("fault:" + cell, 0) for cell in CELLS}
    missing = [k for k, v in hit.items() if v == 0]
    return {
        "rule": "one case = a seeded consistent schema, a prefix of 0-10 edits, then 1-8 cycles of (inject one model "
                "corruption from the fault table, probe every listed observation point for the error class the statement "
                "names, heal, compare all renderings with a fresh rebuild), optionally with edits in between. "
                "non-trivial = >= 1 corruption fired; distinct = (trace, ops) digest",
        "fault_table_cells": len(CELLS),
        "fault_table_cells_hit": len(CELLS) - len(missing),
        "fault_table_cells_missing": missing,
        "exhaustive": False,
        "components": {"real": ["model classes, both default renderers, Database"], "stub": ["none"]},
        "_level": "fault_enumeration",
        "_assumptions": [
            "only the element kinds, attributes and probes listed in the C17 statement are probed",
            "the fault table (corruption kind x reach x side x inline) is enumerated; the histories leading to the "
            "corrupted state are sampled",
        ],
        "_exit2": (f"fault table cells never hit: {missing}" if missing and tier == "thorough" else None),
    }
