"""Document corpus for E1/E2 (DESIGN 2.4).

The oracle of E1/E2 is a pristine parse of the same text, so the corpus needs
diversity, not an expected model.  A document's validity class is whatever the
pristine parse says; nothing is assumed here.
"""
from __future__ import annotations

import glob
import os
import random
import re
from typing import Any, Dict, List, Tuple

from . import core

NONASCII = ["naïve café", "Größe", "日本語のメモ", "emoji 🙂 ok", "Ελληνικά", "ключ",
            "zero\ufeffwidth", "nb\u00a0sp", "ideo\u3000space", "thin\u2009space", "line\u2028separator", "next\u0085line", "form\x0cfeed", "para\u2029graph", "fs\x1cchar"]


def repo_docs(max_bytes: int = 20000) -> List[Tuple[str, str]]:
    out = []
    pats = [os.path.join(core.REPO, "test", "test_data", "*.dbml"),
            os.path.join(core.REPO, "test", "test_data", "docs", "*.dbml"),
            os.path.join(core.REPO, "test_schema.dbml")]
    for p in pats:
        for f in sorted(glob.glob(p)):
            try:
                with open(f, encoding="utf8") as fh:
                    t = fh.read()
            except Exception:
                continue
            t = t.replace("\r\n", "\n").replace("\r", "\n").lstrip("﻿")
            if len(t.encode("utf8")) <= max_bytes:
                out.append(("repo:" + os.path.relpath(f, core.REPO), t))
    for f in sorted(glob.glob(os.path.join(core.REPO, "docs", "*.md"))):
        try:
            with open(f, encoding="utf8") as fh:
                md = fh.read()
        except Exception:
            continue
        for k, blk in enumerate(re.findall(r"```(?:dbml)?\n(Table[\s\S]*?|Enum[\s\S]*?|Project[\s\S]*?)```", md)):
            if ">>>" in blk:
                continue
            out.append((f"repo:docs/{os.path.basename(f)}#{k}", blk))
    return out


def q(s: str) -> str:
    return '"' + s + '"'


def sq(s: str) -> str:
    return "'" + s.replace("\\", "\\\\").replace("'", "\\'") + "'"


def template_doc(rng: random.Random, props: bool) -> str:
    """A seeded, syntactically rich document.  `props` adds arbitrary
    properties (valid only with allow_properties=True)."""
    parts: List[str] = []
    nasc = rng.random() < 0.4

    def text() -> str:
        return rng.choice(NONASCII) if nasc and rng.random() < 0.6 else rng.choice(
            ["simple note", "it's quoted", "two words", "x", "back\\\\slash"])

    enums = []
    if rng.random() < 0.7:
        for k in range(rng.randint(1, 2)):
            name = f"e{k}" if rng.random() < 0.7 else rng.choice(["text", "status_t", "varchar"])
            if name in [e.split(".")[-1] for e in enums]:
                name = f"e{k}"
            schema = rng.choice(["", "", "s1."])
            items = rng.sample(["created", "running", "done", "failure", "Out of Stock"], rng.randint(1, 3))
            body = []
            for it in items:
                line = "  " + q(it)
                if rng.random() < 0.3:
                    line += f" [note: {sq(text())}]"
                if rng.random() < 0.2:
                    line += " // item comment"
                body.append(line)
            parts.append(("// enum comment\n" if rng.random() < 0.3 else "")
                         + f"Enum {schema}{q(name)} {{\n" + "\n".join(body) + "\n}")
            enums.append(schema + name)
    if rng.random() < 0.4:
        items = []
        if rng.random() < 0.7:
            items.append(f"  author: {sq(text())}")
        if rng.random() < 0.5:
            items.append("  database_type: 'PostgreSQL'")
        if rng.random() < 0.5:
            items.append(f"  Note: {sq(text())}")
        if rng.random() < 0.3:
            items.append("  note: '''\n    multi\n    line " + (rng.choice(NONASCII) if nasc else "note") + "\n  '''")
            items = [i for i in items if not i.startswith("  Note:")]
        parts.append("Project proj {\n" + "\n".join(items) + "\n}")
    nt = rng.randint(1, 4)
    tables: List[Tuple[str, str, List[str]]] = []
    for k in range(nt):
        name = f"t{k}"
        schema = rng.choice(["", "", "", "s1."])
        alias = f"a{k}" if rng.random() < 0.3 else None
        ncols = rng.randint(1, 4)
        cols = ["id"] + rng.sample(["name", "val", "ref_id", "status", "created_at"], ncols - 1)
        lines = []
        for c in cols:
            typ = "int" if c in ("id", "ref_id", "val") else rng.choice(["varchar", "varchar(255)", "text"])
            if c == "status" and enums:
                typ = rng.choice(enums)
            elif c in ("status", "name") and rng.random() < 0.35:
                # a type name that is an enum in *other* documents of the corpus, plain here
                typ = rng.choice(["e0", "e1", "status_t", "s1.e0"])
            opts = []
            if c == "id" and rng.random() < 0.8:
                opts.append("pk")
            if c == "id" and rng.random() < 0.3:
                opts.append("increment")
            if c != "id" and rng.random() < 0.2:
                opts.append("unique")
            if c != "id" and rng.random() < 0.2:
                opts.append("not null")
            if c != "id" and rng.random() < 0.25:
                opts.append("default: " + rng.choice(["1", "1.5", "'str'", "`now()`", "true", "null"]))
            if rng.random() < 0.25:
                opts.append(f"note: {sq(text())}")
            if c == "ref_id" and tables and rng.random() < 0.6:
                tt = rng.choice(tables)
                opts.append(f"ref: {rng.choice(['>', '<', '-'])} {tt[0]}{tt[1]}.id")
            if props and rng.random() < 0.3:
                opts.append(f"colprop: {sq(text())}")
            line = f"  {q(c) if rng.random() < 0.5 else c} {typ}"
            if opts:
                line += " [" + ", ".join(opts) + "]"
            if rng.random() < 0.15:
                line += " // col comment"
            lines.append(line)
        if props and rng.random() < 0.4:
            lines.append(f"  tprop: {sq(text())}")
        if rng.random() < 0.3:
            lines.append(f"  Note: {sq(text())}")
        elif rng.random() < 0.15:
            lines.append("  Note {\n    '''\n    multi\n      indented " + (rng.choice(NONASCII) if nasc else "x") + "\n    '''\n  }")
        if rng.random() < 0.35:
            ix = []
            for _ in range(rng.randint(1, 2)):
                subj = rng.sample(cols, min(len(cols), rng.randint(1, 2)))
                s = subj[0] if len(subj) == 1 else "(" + ", ".join(subj) + ")"
                if rng.random() < 0.15:
                    s = "(`id*2`)" if len(subj) > 1 else "`id*2`"
                o = []
                if rng.random() < 0.3:
                    o.append("unique")
                if rng.random() < 0.3:
                    o.append("name: 'ix_" + name + "'")
                if rng.random() < 0.2:
                    o.append("type: hash")
                if rng.random() < 0.1:
                    o.append("pk")
                ix.append("    " + s + (" [" + ", ".join(o) + "]" if o else ""))
            lines.append("  indexes {\n" + "\n".join(ix) + "\n  }")
        hdr = f"Table {schema}{name}"
        if alias:
            hdr += f" as {alias}"
        if rng.random() < 0.2:
            hdr += " [headercolor: #3498db]"
        pre = "// table comment\n" if rng.random() < 0.2 else ("/* block\n comment */\n" if rng.random() < 0.1 else "")
        parts.append(pre + hdr + " {\n" + "\n".join(lines) + "\n}")
        tables.append((schema, name, cols))
    # standalone references
    if len(tables) > 1:
        seen = set()
        for _ in range(rng.randint(0, 3)):
            a, b = rng.sample(tables, 2)
            key = (a[1], b[1])
            if key in seen or (b[1], a[1]) in seen:
                continue
            seen.add(key)
            form = rng.random()
            typ = rng.choice([">", "<", "-", "<>"])
            ca = rng.choice(a[2])
            cb = rng.choice(b[2])
            if len(a[2]) > 1 and len(b[2]) > 1 and rng.random() < 0.2:
                l = f"{a[0]}{a[1]}.({a[2][0]}, {a[2][1]})"
                r = f"{b[0]}{b[1]}.({b[2][0]}, {b[2][1]})"
            else:
                l, r = f"{a[0]}{a[1]}.{ca}", f"{b[0]}{b[1]}.{cb}"
            opts = ""
            if rng.random() < 0.3:
                opts = " [delete: cascade, update: no action]"
            nm = " fk_" + a[1] if rng.random() < 0.3 else ""
            if form < 0.5:
                parts.append(f"Ref{nm}: {l} {typ} {r}{opts}")
            else:
                parts.append(f"Ref{nm} {{\n  {l} {typ} {r}{opts}\n}}")
    if rng.random() < 0.4 and tables:
        its = rng.sample(tables, rng.randint(1, len(tables)))
        o = []
        if rng.random() < 0.3:
            o.append("color: #FFF")
        if rng.random() < 0.3:
            o.append(f"note: {sq(text())}")
        body = "\n".join(f"  {s}{n}" for s, n, _ in its)
        if rng.random() < 0.2:
            body += f"\n  note: {sq(text())}"
        parts.append("TableGroup grp" + (" [" + ", ".join(o) + "]" if o else "") + " {\n" + body + "\n}")
    if rng.random() < 0.3:
        parts.append("Note sticky1 {\n  " + sq(text()) + "\n}")
    if rng.random() < 0.15:
        parts.append("Note sticky2 {\n'''\n  multi " + (rng.choice(NONASCII) if nasc else "m") + "\n  line\n'''\n}")
    rng.shuffle(parts)
    # references to tables defined later are fine; enums must not matter for order either
    sep = rng.choice(["\n\n", "\n", "\n\n\n"])
    head = rng.choice(["", "  ", "     "]) + "// first\tline\twith tabs\n" if rng.random() < 0.15 else ""
    return head + sep.join(parts) + rng.choice(["", "\n", "\n\n"])


def failing_variants(rng: random.Random, name: str, text: str) -> List[Tuple[str, str]]:
    out: List[Tuple[str, str]] = []
    n = len(text)
    if n > 10:
        k = rng.randrange(5, n - 1)
        out.append((name + "!trunc", text[:k]))
        k = rng.randrange(0, n)
        out.append((name + "!garbage", text[:k] + rng.choice([" ]] ", " {{ ", " @@ ", "'''", " Table "]) + text[k:]))
    m = re.search(r"Table [^{]*\{\n", text)
    if m:
        out.append((name + "!dup-table", text + "\n\n" + text[m.start():text.find("\n}", m.end()) + 2]))
        # reference / index to something missing: fails half-way through build_database
        out.append((name + "!missing-ref-table", text + "\n\nRef: nosuchtable.id > alsomissing.id\n"))
        tn = re.match(r"Table\s+(?:\"?[\w]+\"?\.)?\"?(\w+)\"?", m.group(0))
        if tn:
            out.append((name + "!missing-ref-col", text + f"\n\nTable zz_last {{\n  id int [ref: > {tn.group(1)}.nosuchcolumn]\n}}\n"))
        out.append((name + "!missing-index-col", text + "\n\nTable zz_idx {\n  id int\n  indexes {\n    nosuchcolumn\n  }\n}\n"))
        out.append((name + "!empty-table", text + "\n\nTable zz_empty {\n}\n"))
    m = re.search(r"Enum [^{]*\{\n[\s\S]*?\n\}", text)
    if m:
        out.append((name + "!dup-enum", text + "\n\n" + m.group(0)))
    m = re.search(r"TableGroup [^{]*\{\n[\s\S]*?\n\}", text)
    if m:
        out.append((name + "!dup-group", text + "\n\n" + m.group(0)))
    m = re.search(r"^Ref[^\n{]*:[^\n]*$", text, re.M)
    if m:
        out.append((name + "!dup-ref", text + "\n\n" + m.group(0)))
    return out


RECURSION_BOMB = "Table t {\n  id int [default: `x`]\n  indexes {\n    `" + "(" * 10 + "`\n  }\n}\n"


TOUR = '// project comment before\nProject "tour" {\n  // inside project\n  database_type: \'PostgreSQL\'\n  Note: \'project note\'\n}\n\n// enum comment before\nEnum s1."kind" {\n  // item comment before\n  "a" [note: \'item note\'] // item comment after settings\n  "b" // item comment after\n  "c"\n}\n\n// table comment before\nTable s1.things as T [headercolor: #abc, note: \'settings note\'] {\n  // column comment before\n  id int pk unique // deprecated constraints, comment after\n  "kind" s1.kind [not null, default: \'a\'] // after settings\n  // second comment before\n  // continued\n  n decimal(10, 2) [default: 1.5, note: \'n note\']\n  flag bool [default: true]\n  t varchar(255) [default: `lower(\'X\')`, unique]\n  parent_id int [ref: > s1.things.id] // inline ref comment\n\n  indexes {\n    // index comment before\n    (id, n) [name: \'both\', type: btree] // index comment after\n    `n*2` [unique, note: \'expr idx\'] \n    t [pk]\n    // trailing comment in indexes\n  }\n  // comment before note\n  Note {\n    \'\'\'\n      multi\n        line\n    \'\'\'\n  }\n}\n\nTable other {\n  id int [pk, increment]\n  thing_id int\n  thing_n decimal\n}\n\n// ref comment before\nRef named_ref {\n  other.thing_id > s1.things.id [update: cascade, delete: set null] // ref comment after\n}\n\nRef: other.(thing_id, thing_n) - T.(id, n)\n\nTableGroup "grp one" [color: #123456, note: \'g note\'] {\n  // group item comment\n  s1.things\n  other\n  Note: \'inner group note\'\n}\n\nNote sticky_a {\n  \'one line\'\n}\n/* block comment\n   spanning lines */\n'


def build_corpus(seed: int, n_templates: int, max_bytes: int) -> List[Dict[str, Any]]:
    """Deterministic in (seed, parameters, files under the tree under test)."""
    rng = core.stream(core.run_seed(seed, "corpus", 0), "corpus")
    docs: List[Tuple[str, str]] = []
    docs.extend(repo_docs(max_bytes))
    for k in range(n_templates):
        props = rng.random() < 0.3
        docs.append((f"tmpl{k}" + ("+props" if props else ""), template_doc(rng, props)))
    if max_bytes >= 30000:
        # long documents (beyond one 8 KiB / 64 KiB read): many small tables with distinct names
        for label, n in (("big-9k", 110), ("big-70k", 820)):
            blocks = []
            for k in range(n):
                ref = f" [ref: > big{k - 1}.id]" if k and k % 7 == 0 else ""
                blocks.append(f"Table big{k} {{\n  id int [pk]\n  parent_id int{ref}\n  label varchar [note: 'n{k} é']\n}}")
            text = "\n\n".join(blocks) + "\n"
            if len(text.encode("utf8")) <= max_bytes:
                docs.append((label, text))
    # siblings: near-identical documents (same table and type names) that differ in one aspect, so that
    # cross-talk between parses of *similar* documents shows as silently wrong content, not as an error
    for name, text in list(docs):
        if not name.startswith("tmpl"):
            continue
        no_enum = re.sub(r"(?:// enum comment\n)?Enum [^{]*\{\n[\s\S]*?\n\}\n*", "", text)
        if no_enum != text and no_enum.strip():
            docs.append((name + "~noenum", no_enum))
        retyped = re.sub(r"\bint\b", "bigint", text)
        if retyped != text:
            docs.append((name + "~bigint", retyped))
        renamed = re.sub(r"\bt0\b", "t0x", text)
        if renamed != text and rng.random() < 0.5:
            docs.append((name + "~t0x", renamed))
        # the deprecated spelling of column constraints (after the type, without brackets)
        old = re.sub(r"(?m)^(\s+\S+ [\w()]+) \[(pk|unique)\]$", r"\1 \2", text)
        if old != text:
            docs.append((name + "~oldstyle", old))
        # one part of a schema split over two files: a table definition is left out, what refers to it stays
        # (not a valid document on its own - unless nothing referred to the table; a sibling defines it)
        blocks = list(re.finditer(r"Table (?:\"?\w+\"?\.)?\"?(\w+)\"?[^{\n]*\{\n[\s\S]*?\n\}\n*", text))
        if len(blocks) > 1:
            b = rng.choice(blocks)
            docs.append((name + "~part", text[:b.start()] + text[b.end():]))
    # unusual but legal values: keyword-like and dotted names, numeric strings, blank and very long notes
    docs.append(("keywords", 'Table "table" as "ref" {\n  "ref" int [pk]\n  "note" varchar [note: \'note\']\n  "indexes" int\n'
                 '  "enum" "enum"\n  indexes {\n    "indexes"\n  }\n}\n\nEnum "enum" {\n  "Table"\n  "Ref"\n}\n\n'
                 'Table "a.b" {\n  "c.d" int [ref: > "table"."ref"]\n}\n\nTableGroup "TableGroup" {\n  "table"\n}\n'))
    docs.append(("values", "Table v {\n  a int [default: 123]\n  b varchar [default: '123']\n  c varchar [default: '']\n"
                 "  d varchar [default: ' ']\n  e float [default: 1.50]\n  f bool [default: false]\n  g int [default: null]\n"
                 "  h text [note: '" + "long " * 600 + "']\n}\n\nNote blank {\n  ''\n}\n"))
    # (observation outside the claimed properties: a note consisting of blanks only makes remove_indentation
    # raise ValueError('min() iterable argument is empty') - C08's business; kept as a failing document)
    docs.append(("blank-note", "Table w {\n  a int\n  Note: '   '\n}\n"))
    # a hand-written tour through every grammar feature (comments before/after every kind of element, the
    # deprecated column constraints, table settings, named and composite references, group notes, ...): the
    # coverage measurement of 10.6 showed which parse actions the seeded templates never reached
    docs.insert(len([d for d in docs if d[0].startswith("repo:")]), ("tmpl-tour", TOUR))
    docs.append(("tour-dup-in-group", TOUR.replace("  s1.things\n  other\n", "  s1.things\n  other\n  T\n")))
    docs.append(("indented-first-line-tabs", "   // cata\tlogue of\tthings\nTable t {\n  id int [note: 'x\ty']\n}\n"))
    # moderately nested type arguments: a valid document, and the same cut off inside the innermost parenthesis
    nested5 = "Table n5 {\n  id int\n  x numeric(round(abs(least(greatest(scale(2))))))\n  y decimal(f(g(1)))\n}\n"
    docs.append(("tmpl-nested-5", nested5))
    docs.append(("nested-5-cut", nested5[:nested5.index("scale(2") + 7]))
    docs.append(("nested-8-cut", "Table n8 {\n  x numeric(a(b(c(d(e(f(g(h(2"))
    docs.append(("tabs-first-line", "// customers\t(master\tdata)\nTable \"cu\tst\" {\n\tid int [note: 'a\tb']\n\tn varchar\n}\n"))
    docs.append(("m2m-twice", "Table authors {\n  id int [pk]\n  alt_id int\n}\n\nTable books {\n  id int [pk]\n  alt_id int\n}\n\n"
                 "Ref: authors.id <> books.id\n\nRef: authors.alt_id <> books.alt_id\n\nRef: books.id <> authors.alt_id\n"))
    docs.append(("empty", ""))
    docs.append(("only-comment", "// nothing here\n"))
    docs.append(("blank-lines", "\n\n  \n\t\n"))
    # comment-only documents whose whole text happens to be an existing path
    docs.append(("comment-slashes", "//"))
    docs.append(("comment-tmp", "//tmp"))
    base = [d for d in docs if "~" not in d[0]]
    for name, text in base:
        vs = failing_variants(rng, name, text)
        rng.shuffle(vs)
        docs.extend(vs[:3] if name.startswith("repo:") else vs[:2])
    # (added after the failing variants were derived: a garbage token inside the nested expression sends
    # pyparsing into exponential backtracking - minutes for 40 levels - which is C08's business, not C11's)
    # deep nesting in a column type argument: 150 levels exceed the interpreter's recursion limit inside
    # pyparsing (RecursionError half-way through the parse), 40 levels parse fine
    for label, n in (("nested-40", 40), ("recursion-150", 150)):
        docs.append((label, "Table before_it {\n  id int\n}\n\nTable deep {\n  id decimal(" + "f(" * n + "1" + ")" * n
                     + ")\n}\n"))
    out = []
    seen = set()
    for name, text in docs:
        if text in seen:
            continue
        seen.add(text)
        out.append({"id": len(out), "name": name, "text": text})
    return out
