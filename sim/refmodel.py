"""Plain-data reference model of PyDBML's object model (DESIGN 5).

The model is a dict handle -> dict of plain fields.  Handles are symbolic
(`t1`, `c3`, `i2`, `r1`, `e1`, `g1`, `n1`, `p1`, `db1`) and are what replay files
speak in.  Three things are derived from it:

* realize()      - build real pydbml objects through the public constructors
* expected_dump  - what an identity-aware dump of the real objects must be
* equality notions (strict / nominal) used only to *veto* operations whose
  outcome the property statement leaves open, never to decide a verdict.

Semantics are written from the property statements (C09/C10/C16/C17), not
transcribed from the code.
"""
from __future__ import annotations

import copy
from typing import Any, Dict, List, Optional, Tuple

KINDS = {"t": "table", "c": "column", "i": "index", "r": "ref", "e": "enum",
         "g": "group", "n": "sticky", "p": "project", "d": "db"}

RENDERERS = ("default", "tag", "partial", "sub", "nodb", "err", "late")


class World:
    def __init__(self) -> None:
        self.m: Dict[str, Dict[str, Any]] = {}
        self._n: Dict[str, int] = {}

    # ------------------------------------------------------------ creation
    def new(self, kind: str, **f: Any) -> str:
        prefix = {"table": "t", "column": "c", "index": "i", "ref": "r", "enum": "e",
                  "group": "g", "sticky": "n", "project": "p", "db": "db"}[kind]
        self._n[prefix] = self._n.get(prefix, 0) + 1
        h = f"{prefix}{self._n[prefix]}"
        d = {"kind": kind}
        d.update(f)
        self.m[h] = d
        return h

    def table(self, name, schema="public", alias=None, note="", header_color=None, comment=None,
              abstract=False, properties=None, ctor_cols=True) -> str:
        return self.new("table", name=name, schema=schema, alias=alias or None, cols=[], idxs=[], note=note,
                        header_color=header_color, comment=comment, abstract=abstract,
                        properties=dict(properties or {}), db=None, ctor_cols=ctor_cols)

    def column(self, name, type, unique=False, not_null=False, pk=False, autoinc=False, default=None,
               note="", comment=None, properties=None) -> str:
        return self.new("column", name=name, type=type, unique=unique, not_null=not_null, pk=pk,
                        autoinc=autoinc, default=default, note=note, comment=comment,
                        properties=dict(properties or {}), table=None)

    def index(self, subjects, name=None, unique=False, type=None, pk=False, note="", comment=None) -> str:
        return self.new("index", subjects=[list(s) for s in subjects], name=name or None, unique=unique, type=type,
                        pk=pk, note=note, comment=comment, table=None)

    def ref(self, type, col1, col2, name=None, comment=None, on_update=None, on_delete=None, inline=False) -> str:
        return self.new("ref", type=type, col1=list(col1), col2=list(col2), name=name or None, comment=comment,
                        on_update=on_update, on_delete=on_delete, inline=inline, db=None)

    def enum(self, name, items, schema="public", comment=None) -> str:
        return self.new("enum", name=name, schema=schema, comment=comment,
                        items=[dict(name=i, note="", comment=None) if isinstance(i, str) else dict(i)
                               for i in items], db=None)

    def group(self, name, items, comment=None, note=None, color=None) -> str:
        return self.new("group", name=name, items=list(items), comment=comment, note=note, color=color, db=None)

    def sticky(self, name, text) -> str:
        return self.new("sticky", name=name, text=text, db=None)

    def project(self, name, items=None, note="", comment=None) -> str:
        return self.new("project", name=name, items=dict(items or {}), note=note, comment=comment, db=None)

    def db(self, allow_properties=False, sqlr="default", dbmlr="default") -> str:
        return self.new("db", tables=[], refs=[], enums=[], groups=[], notes=[], project=None,
                        allow_properties=allow_properties, sqlr=sqlr, dbmlr=dbmlr)

    def attach_col(self, t: str, c: str) -> None:
        self.m[t]["cols"].append(c)
        self.m[c]["table"] = t

    def attach_idx(self, t: str, i: str) -> None:
        self.m[t]["idxs"].append(i)
        self.m[i]["table"] = t

    def clone(self) -> "World":
        w = World()
        w.m = copy.deepcopy(self.m)
        w._n = dict(self._n)
        return w

    def handles(self, kind: str) -> List[str]:
        return [h for h, d in self.m.items() if d["kind"] == kind]

    # ------------------------------------------------------------ derived
    def full_name(self, t: str) -> str:
        d = self.m[t]
        return f"{d['schema']}.{d['name']}"

    def keys_of(self, t: str) -> List[str]:
        d = self.m[t]
        ks = [self.full_name(t)]
        if d["alias"]:
            ks.append(d["alias"])
        return ks

    def db_keys(self, db: str, exclude: Optional[str] = None) -> Dict[str, str]:
        out: Dict[str, str] = {}
        for t in self.m[db]["tables"]:
            if t == exclude:
                continue
            for k in self.keys_of(t):
                out.setdefault(k, t)
        return out

    def db_key_candidates(self, db: str) -> Dict[str, List[str]]:
        """key (full name or alias) -> contained tables that currently carry it (more than one after a
        rename into a clash, which plain attribute assignment cannot prevent)"""
        out: Dict[str, List[str]] = {}
        for t in self.m[db]["tables"]:
            for k in dict.fromkeys(self.keys_of(t)):
                out.setdefault(k, []).append(t)
        return out

    def col_db(self, c: str) -> Optional[str]:
        t = self.m[c]["table"]
        return self.m[t]["db"] if t else None

    # ---- strict content equality (what structural == would compare) ------
    def col_content(self, c: str) -> Any:
        d = self.m[c]
        t = d["table"]
        ty = d["type"]
        if isinstance(ty, (list, tuple)):
            ty = ("enum", self.enum_content(ty[1]))
        return (self.full_name(t) if t else None, d["name"], ty, d["unique"], d["not_null"], d["pk"],
                d["autoinc"], _val(d["default"]), d["note"], d["comment"], tuple(d["properties"].items()))

    def idx_content(self, i: str) -> Any:
        d = self.m[i]
        subs = tuple(("col", self.col_content(s[1])) if s[0] == "col" else tuple(s) for s in d["subjects"])
        return (subs, d["name"], d["unique"], d["type"], d["pk"], d["note"], d["comment"])

    def enum_content(self, e: str) -> Any:
        d = self.m[e]
        return (d["name"], d["schema"], d["comment"],
                tuple((i["name"], i["note"], i["comment"]) for i in d["items"]), bool(d.get("subclass")))

    def table_content(self, t: str) -> Any:
        d = self.m[t]
        return (d["name"], d["schema"], d["alias"] or None, tuple(self.col_content(c) for c in d["cols"]),
                tuple(self.idx_content(i) for i in d["idxs"]), d["note"], d["header_color"], d["comment"],
                d["abstract"], tuple(d["properties"].items()), bool(d.get("subclass")))

    def ref_strict(self, r: str) -> Any:
        d = self.m[r]
        return (d["type"], tuple(self.col_content(c) for c in d["col1"]),
                tuple(self.col_content(c) for c in d["col2"]), d["name"], d["comment"],
                d["on_update"], d["on_delete"], bool(d.get("subclass")))

    def ref_nominal(self, r: str) -> Any:
        d = self.m[r]

        def ep(c: str) -> Any:
            t = self.m[c]["table"]
            return (self.full_name(t) if t else None, self.m[c]["name"])
        return (d["type"], tuple(ep(c) for c in d["col1"]), tuple(ep(c) for c in d["col2"]),
                d["name"], d["on_update"], d["on_delete"])

    def strict(self, h: str) -> Any:
        k = self.m[h]["kind"]
        if k == "table":
            return self.table_content(h)
        if k == "column":
            return self.col_content(h)
        if k == "index":
            return self.idx_content(h)
        if k == "ref":
            return self.ref_strict(h)
        if k == "enum":
            return self.enum_content(h)
        return ("identity", h)


def _val(v: Any) -> Any:
    """defaults: python value, or ['expr', text]"""
    if isinstance(v, list):
        return tuple(v)
    return (type(v).__name__, v)


# ====================================================================== realize

def realize(world: World, classes: Any, renderers: Dict[str, Any], via_add: bool = True,
            pre: Optional[Dict[str, Any]] = None) -> Dict[str, Any]:
    """Build real objects for every handle through the public constructors.
    Database membership is established with db.add() in model list order.
    `classes` is the pydbml.classes module (+ Database)."""
    C0 = classes

    class _Sub:
        """model field `subclass: true` -> the object is built as an instance of a trivial user-defined
        subclass of the library class (is-a Table, is-a Enum, ...)"""
        cache: Dict[str, Any] = {}

        def __init__(self, sub: bool) -> None:
            self.sub = sub

        def __getattr__(self, name: str) -> Any:
            base = getattr(C0, name)
            if not self.sub:
                return base
            if name not in _Sub.cache:
                _Sub.cache[name] = type("My" + name, (base,), {})
            return _Sub.cache[name]
    C = _Sub(False)
    CS = _Sub(True)
    share = bool(getattr(world, "share_notes", False))
    note_cache: Dict[str, Any] = {}

    def N(text: Any) -> Any:
        """note argument of a constructor: None, or - when the world asks for it - ONE Note object handed to
        every element that has this text (the constructors document that they take the note by value)"""
        if not text:
            return None
        if not share:
            return text
        if text not in note_cache:
            note_cache[text] = C0.Note(text)
        return note_cache[text]
    real: Dict[str, Any] = dict(pre or {})
    pre = pre or {}
    m = world.m
    for h in world.handles("enum"):
        if h in pre:
            continue
        d = m[h]
        items = [C.EnumItem(i["name"], note=i["note"] or None, comment=i["comment"]) for i in d["items"]]
        real[h] = (CS if d.get("subclass") else C).Enum(d["name"], items, schema=d["schema"], comment=d["comment"])
    for h in world.handles("column"):
        if h in pre:
            continue
        d = m[h]
        ty = d["type"]
        if isinstance(ty, (list, tuple)):
            ty = real[ty[1]]
        default = d["default"]
        if isinstance(default, list):
            default = C.Expression(default[1])
        real[h] = C.Column(d["name"], ty, unique=d["unique"], not_null=d["not_null"], pk=d["pk"],
                           autoinc=d["autoinc"], default=default, note=N(d["note"]),
                           comment=d["comment"], properties=dict(d["properties"]) or None)

    def mk_index(h: str) -> Any:
        d = m[h]
        subs = []
        for s in d["subjects"]:
            if s[0] == "col":
                subs.append(real[s[1]])
            elif s[0] == "expr":
                subs.append(C.Expression(s[1]))
            else:
                subs.append(s[1])
        return C.Index(subs, name=d["name"], unique=d["unique"], type=d["type"], pk=d["pk"],
                       note=N(d["note"]), comment=d["comment"])

    for h in world.handles("index"):
        if h not in pre:
            real[h] = mk_index(h)
    for h in world.handles("table"):
        if h in pre:
            continue
        d = m[h]
        kw = dict(schema=d["schema"], alias=d["alias"], note=N(d["note"]), header_color=d["header_color"],
                  comment=d["comment"], abstract=d["abstract"], properties=dict(d["properties"]) or None)
        TC = (CS if d.get("subclass") else C).Table
        if d.get("ctor_cols", True):
            # the constructor documents Iterable arguments: a tuple and a generator are as good as a list
            style = len(d["name"] or "") % 3
            cols_arg: Any = [real[c] for c in d["cols"]]
            idx_arg: Any = [real[i] for i in d["idxs"]]
            if style == 1:
                cols_arg, idx_arg = tuple(cols_arg), tuple(idx_arg)
            elif style == 2:
                cols_arg, idx_arg = (x for x in cols_arg), (x for x in idx_arg)
            t = TC(d["name"], columns=cols_arg, indexes=idx_arg, **kw)
        else:
            t = TC(d["name"], **kw)
            for c in d["cols"]:
                t.add_column(real[c])
            for i in d["idxs"]:
                t.add_index(real[i])
        real[h] = t
    for h in world.handles("ref"):
        if h in pre:
            continue
        d = m[h]
        c1 = [real[c] for c in d["col1"]]
        c2 = [real[c] for c in d["col2"]]
        # Union[Column, Collection[Column]]: a bare column, a list and a tuple are all documented; equal
        # references are built in different styles on purpose
        style = sum(map(ord, h)) % 3
        if d.get("alias_table_lists"):
            # the caller passes the tables' own column lists (all columns, in order)
            for side, cs in (("col1", c1), ("col2", c2)):
                t = m[d[side][0]]["table"]
                if t and m[t]["cols"] == d[side] and t in real:
                    if side == "col1":
                        c1 = real[t].columns
                    else:
                        c2 = real[t].columns
            style = 2
        if style == 1:
            c1, c2 = tuple(c1), tuple(c2)
        a1: Any = c1[0] if (len(c1) == 1 and style == 0) else c1
        a2: Any = c2[0] if (len(c2) == 1 and style == 0) else c2
        real[h] = (CS if d.get("subclass") else C).Reference(d["type"], a1, a2,
                              name=d["name"], comment=d["comment"], on_update=d["on_update"],
                              on_delete=d["on_delete"], inline=d["inline"])
    for h in world.handles("group"):
        if h in pre:
            continue
        d = m[h]
        real[h] = (CS if d.get("subclass") else C).TableGroup(d["name"], [real[t] for t in d["items"]], comment=d["comment"],
                               note=None if d["note"] is None else C.Note(d["note"]), color=d["color"])
    for h in world.handles("sticky"):
        if h in pre:
            continue
        d = m[h]
        real[h] = (CS if d.get("subclass") else C).StickyNote(d["name"], d["text"])
    for h in world.handles("project"):
        if h in pre:
            continue
        d = m[h]
        real[h] = (CS if d.get("subclass") else C).Project(d["name"], items=dict(d["items"]) or None, note=d["note"] or None,
                                                           comment=d["comment"])
    for h in world.handles("db"):
        if h in pre:
            continue
        d = m[h]
        if d.get("positional"):
            # renderer classes passed positionally, in the documented order (sql_renderer, dbml_renderer, allow_properties)
            db = C.Database(renderers["sql"][d["sqlr"]], renderers["dbml"][d["dbmlr"]], d["allow_properties"])
        else:
            db = C.Database(sql_renderer=renderers["sql"][d["sqlr"]], dbml_renderer=renderers["dbml"][d["dbmlr"]],
                            allow_properties=d["allow_properties"])
        real[h] = db
        if via_add:
            # the order in which elements of different kinds are added is the caller's business (references
            # come after the tables they touch); per kind the model's list order is kept
            kinds_order = ["enums", "tables", "groups", "notes", "project"]
            rot = int(d.get("add_order", 0)) % len(kinds_order)
            kinds_order = kinds_order[rot:] + kinds_order[:rot]
            if int(d.get("add_order", 0)) % 2:
                kinds_order.reverse()
            for kind in kinds_order:
                if kind == "project":
                    if d["project"]:
                        db.add(real[d["project"]])
                else:
                    for x in d[kind]:
                        db.add(real[x])
            for x in d["refs"]:
                db.add(real[x])
    return real


# ====================================================================== dumps

def _pairs(d: Any) -> Any:
    if isinstance(d, dict):
        return [[k, v] for k, v in d.items()]
    return ["not-a-dict", type(d).__name__]


def expected_dump(world: World, renderer_quals: Dict[str, Dict[str, str]]) -> Dict[str, Any]:
    out: Dict[str, Any] = {}
    m = world.m
    for h, d in m.items():
        k = d["kind"]
        if k == "table":
            out[h] = {"name": d["name"], "schema": d["schema"], "alias": d["alias"],
                      "cols": list(d["cols"]), "idxs": list(d["idxs"]),
                      "note": {"text": d["note"], "parent": h}, "header_color": d["header_color"],
                      "comment": d["comment"], "abstract": d["abstract"], "properties": _pairs(d["properties"]),
                      "db": d["db"]}
        elif k == "column":
            ty = d["type"]
            out[h] = {"name": d["name"], "type": ["enum", ty[1]] if isinstance(ty, (list, tuple)) else ["str", ty],
                      "unique": d["unique"], "not_null": d["not_null"], "pk": d["pk"], "autoinc": d["autoinc"],
                      "default": _dval(d["default"]), "note": {"text": d["note"], "parent": h},
                      "comment": d["comment"], "properties": _pairs(d["properties"]), "table": d["table"]}
        elif k == "index":
            out[h] = {"subjects": [list(s) for s in d["subjects"]], "name": d["name"],
                      "unique": d["unique"], "type": d["type"], "pk": d["pk"],
                      "note": {"text": d["note"], "parent": h}, "comment": d["comment"], "table": d["table"]}
        elif k == "ref":
            out[h] = {"type": d["type"], "col1": list(d["col1"]), "col2": list(d["col2"]), "name": d["name"],
                      "comment": d["comment"], "on_update": d["on_update"], "on_delete": d["on_delete"],
                      "_inline": d["inline"], "db": d["db"]}
        elif k == "enum":
            out[h] = {"name": d["name"], "schema": d["schema"], "comment": d["comment"],
                      "items": [{"name": i["name"], "note": i["note"], "comment": i["comment"], "note_parent_ok": True}
                                for i in d["items"]], "db": d["db"]}
        elif k == "group":
            out[h] = {"name": d["name"], "items": list(d["items"]), "comment": d["comment"], "note": d["note"],
                      "color": d["color"], "db": d["db"]}
        elif k == "sticky":
            out[h] = {"name": d["name"], "text": d["text"], "db": d["db"]}
        elif k == "project":
            out[h] = {"name": d["name"], "items": _pairs(d["items"]), "note": {"text": d["note"], "parent": h},
                      "comment": d["comment"], "db": d["db"]}
        elif k == "db":
            cands = world.db_key_candidates(h)
            if all(len(v) == 1 for v in cands.values()):
                td: Any = sorted([key, v[0]] for key, v in cands.items())
            else:
                # two contained tables share a key: which of them the index shows under it is not prescribed
                td = {"ambiguous": {k: sorted(v) for k, v in cands.items()}}
            out[h] = {"tables": list(d["tables"]), "refs": list(d["refs"]), "enums": list(d["enums"]),
                      "groups": list(d["groups"]), "notes": list(d["notes"]), "project": d["project"],
                      "allow_properties": d["allow_properties"],
                      "sqlr": renderer_quals["sql"][d["sqlr"]], "dbmlr": renderer_quals["dbml"][d["dbmlr"]],
                      "table_dict": td}
    return out


def _dval(v: Any) -> Any:
    if isinstance(v, list):
        return ["Expression", v[1]]
    if isinstance(v, float):
        return ["float", repr(v)]
    return [type(v).__name__, v]


def real_dump(real: Dict[str, Any], kinds: Dict[str, str], with_index: bool = True) -> Dict[str, Any]:
    """Identity-aware dump of the real objects in the same shape as
    expected_dump.  Reads attributes only; never ==, repr or renderers."""
    from .snapshot import qual
    ids = {id(o): h for h, o in real.items()}

    def R(o: Any) -> Any:
        if o is None:
            return None
        h = ids.get(id(o))
        if h is not None:
            return h
        return ["?", type(o).__name__]

    def note(n: Any) -> Any:
        if type(n).__name__ == "Note":
            return {"text": n.text, "parent": R(n.parent)}
        return ["not-a-note", type(n).__name__]

    def dv(v: Any) -> Any:
        if type(v).__name__ == "Expression":
            return ["Expression", v.text]
        if isinstance(v, float):
            return ["float", repr(v)]
        if v is None or isinstance(v, (bool, int, str)):
            return [type(v).__name__, v]
        return ["?", type(v).__name__]

    def subj(s: Any) -> Any:
        if isinstance(s, str):
            return ["str", s]
        if type(s).__name__ == "Expression":
            return ["expr", s.text]
        if type(s).__name__ == "Column":
            return ["col", R(s)]
        return ["?", type(s).__name__]

    def L(x: Any) -> Any:
        if isinstance(x, (list, tuple)):   # the statement does not prescribe the sequence type
            return [R(o) for o in x]
        return ["not-a-sequence", type(x).__name__]

    out: Dict[str, Any] = {}
    for h, o in real.items():
        k = kinds[h]
        if k == "table":
            out[h] = {"name": o.name, "schema": o.schema, "alias": o.alias, "cols": L(o.columns),
                      "idxs": L(o.indexes), "note": note(o.note), "header_color": o.header_color,
                      "comment": o.comment, "abstract": o.abstract, "properties": _pairs(o.properties),
                      "db": R(o.database)}
        elif k == "column":
            ty = o.type
            out[h] = {"name": o.name, "type": ["str", ty] if isinstance(ty, str) or ty is None else ["enum", R(ty)],
                      "unique": o.unique, "not_null": o.not_null, "pk": o.pk, "autoinc": o.autoinc,
                      "default": dv(o.default), "note": note(o.note), "comment": o.comment,
                      "properties": _pairs(o.properties), "table": R(o.table)}
        elif k == "index":
            out[h] = {"subjects": [subj(s) for s in o.subjects] if isinstance(o.subjects, list) else ["?"],
                      "name": o.name, "unique": o.unique, "type": o.type, "pk": o.pk, "note": note(o.note),
                      "comment": o.comment, "table": R(o.table)}
        elif k == "ref":
            out[h] = {"type": o.type, "col1": L(o.col1), "col2": L(o.col2), "name": o.name, "comment": o.comment,
                      "on_update": o.on_update, "on_delete": o.on_delete, "_inline": getattr(o, "_inline", "?"),
                      "db": R(o.database)}
        elif k == "enum":
            out[h] = {"name": o.name, "schema": o.schema, "comment": o.comment,
                      "items": [{"name": i.name, "note": i.note.text if type(i.note).__name__ == "Note" else ["?"],
                                 "comment": i.comment,
                                 "note_parent_ok": getattr(i.note, "parent", None) is i} for i in o.items],
                      "db": R(o.database)}
        elif k == "group":
            n = o.note
            out[h] = {"name": o.name, "items": L(o.items), "comment": o.comment,
                      "note": None if n is None else (n.text if type(n).__name__ == "Note" else ["?"]),
                      "color": o.color, "db": R(o.database)}
        elif k == "sticky":
            out[h] = {"name": o.name, "text": o.text, "db": R(o.database)}
        elif k == "project":
            out[h] = {"name": o.name, "items": _pairs(o.items), "note": note(o.note), "comment": o.comment,
                      "db": R(o.database)}
        elif k == "db":
            out[h] = {"tables": L(o.tables), "refs": L(o.refs), "enums": L(o.enums), "groups": L(o.table_groups),
                      "notes": L(o.sticky_notes), "project": R(o.project), "allow_properties": o.allow_properties,
                      "sqlr": qual(o.sql_renderer), "dbmlr": qual(o.dbml_renderer),
                      "table_dict": sorted([key, R(t)] for key, t in o.table_dict.items()) if with_index else "not read"}
    return out


def diff_dumps(exp: Dict[str, Any], got: Dict[str, Any]) -> List[str]:
    out = []
    for h in exp:
        if h not in got:
            out.append(f"{h}: missing")
            continue
        e, g = exp[h], got[h]
        if e == g:
            continue
        for f in e:
            if e[f] != g.get(f, "<absent>"):
                out.append(f"{h}.{f}: expected {e[f]!r} got {g.get(f, '<absent>')!r}")
    return out
