"""E1 - thread/history simulator for C11 (DESIGN 3).

A run = warm-up parses + 1..4 simulated caller threads, each executing a short
script of parse / edit / render / drop operations, under the baton scheduler.
Oracles: same content as a pristine parse, no shared mutable state, reclaim,
no lasting damage, termination.
"""
from __future__ import annotations

import gc
import json
import os
import sys
import tempfile
import traceback
import weakref
from typing import Any, Callable, Dict, List, Optional, Tuple

from . import core, corpus, sched as S
from .snapshot import snapshot, snap_digest, mutable_ids, qual

PROP = "C11"
PREP: Dict[str, Any] = {}
_state: Dict[str, Any] = {}

RUNS = {"quick": 3000, "thorough": 60000}
WALL_CAP = {"quick": 420.0, "thorough": 4200.0}
CORPUS = {"quick": (40, 3500), "thorough": (160, 7000)}  # (templates, max bytes)


# ---------------------------------------------------------------------- setup

def setup_tree() -> Dict[str, Any]:
    """Import the tree under test (cold grammar), install simulator locks,
    wrap PyDBMLParser.__init__ so parser instances can be weak-referenced."""
    if _state:
        return _state
    pydbml = core.import_repo()
    import pyparsing
    import pydbml.parser.parser as pp_mod
    from pydbml.renderer.base import BaseRenderer
    _state["pydbml"] = pydbml
    _state["PyDBML"] = pydbml.PyDBML
    _state["own_root"] = (os.path.dirname(os.path.realpath(pydbml.__file__)) + os.sep,)
    _state["dep_root"] = (os.path.dirname(os.path.realpath(pyparsing.__file__)) + os.sep,)
    _state["locks"] = S.install_sim_locks(("pydbml", "pyparsing"))
    _state["parsers"] = []
    cls = getattr(pp_mod, "PyDBMLParser", None)
    if cls is not None and isinstance(cls, type):
        orig = cls.__init__

        def __init__(self, *a, **k):
            orig(self, *a, **k)
            try:
                _state["parsers"].append(weakref.ref(self))
            except TypeError:
                pass
        cls.__init__ = __init__
        _state["parser_wrapped"] = True
    else:
        _state["parser_wrapped"] = False

    # custom ("tagged") renderer classes with their own registries
    def mk(name):
        def render_db(cls, db):
            return f"<{name}:db>"
        return type(name, (BaseRenderer,), {"model_renderers": {}, "render_db": classmethod(render_db),
                                            "__module__": "verif.e1"})
    def mk_bare(name):
        # a renderer that overrides render()/render_db() itself and has no per-model registry at all
        def render_db(cls, db):
            return f"<{name}:db>"

        def render(cls, model):
            return f"<{name}:{type(model).__name__}>"
        return type(name, (BaseRenderer,), {"render_db": classmethod(render_db), "render": classmethod(render),
                                            "__module__": "verif.e1"})
    def mk_nested(name, base, types):
        # the documented way to customise a few model types: subclass a default renderer, start from its
        # registry and replace some handlers - here those of models that are rendered inside another one
        from pydbml import classes as C
        reg = dict(base.model_renderers)
        for tn in types:
            def handler(model, _n=name, _tn=tn):
                return f"<{_n}:{_tn}:{getattr(model, 'name', None) or getattr(model, 'subject_names', '')}>"
            reg[getattr(C, tn)] = handler
        return type(name, (base,), {"model_renderers": reg, "__module__": "verif.e1"})
    from pydbml.renderer.sql.default import DefaultSQLRenderer
    from pydbml.renderer.dbml.default import DefaultDBMLRenderer
    _state["renderers"] = {"default": None, "tagged": (mk("TagSQL"), mk("TagDBML")),
                           "bare": (mk_bare("BareSQL"), mk_bare("BareDBML")),
                           "nested": (mk_nested("NestedSQL", DefaultSQLRenderer, ("Column", "Index", "EnumItem")),
                                      mk_nested("NestedDBML", DefaultDBMLRenderer, ("Column", "Index", "EnumItem")))}
    return _state


def own_code_objects() -> List[Any]:
    """Code objects of PyDBML's own parser / model modules (the frames in which
    PyDBML-level sharing bugs live), for opcode-level pre-emption."""
    import types
    out: List[Any] = []
    seen = set()

    def walk(c: Any) -> None:
        if id(c) in seen:
            return
        seen.add(id(c))
        out.append(c)
        for k in c.co_consts:
            if isinstance(k, types.CodeType):
                walk(k)
    for name, mod in sorted(sys.modules.items()):
        if mod is None or not (name.startswith("pydbml.parser") or name.startswith("pydbml._classes")
                               or name in ("pydbml.database", "pydbml.tools")):
            continue
        for v in list(vars(mod).values()):
            if isinstance(v, types.FunctionType) and v.__module__ == name:
                walk(v.__code__)
            elif isinstance(v, type) and v.__module__ == name:
                for a in list(vars(v).values()):
                    f = a.__func__ if isinstance(a, (staticmethod, classmethod)) else (
                        a.fget if isinstance(a, property) else a)
                    if isinstance(f, types.FunctionType):
                        walk(f.__code__)
    return out


def code_key(c: Any) -> List[Any]:
    return [os.path.basename(c.co_filename), c.co_name, c.co_firstlineno]


FOCUS_FILES = ("parser.py", "blueprints.py", "database.py")


CUSTOM = ("tagged", "bare", "nested")
RENDERED = ("default", "nested")     # flavours whose texts are part of the compared result
WANT = {"default": 2, "nested": 3}   # index of the pristine digest a result is compared with (else 1: content only)


def call_parse(text: str, ap: bool, rend: str) -> Any:
    st = _state
    kw: Dict[str, Any] = {"allow_properties": ap}
    if rend in CUSTOM:
        kw["sql_renderer"], kw["dbml_renderer"] = st["renderers"][rend]
    return st["PyDBML"](text, **kw)


_ORDER = [0]


def content_digest(db: Any, with_render: bool = True) -> Tuple[str, Dict[str, Any]]:
    """Digest of the identity-aware snapshot plus, for databases configured with the default renderers, of
    their DBML and SQL text (what a caller obtains from a parse includes how it renders)."""
    import hashlib
    snap = snapshot(db)
    sq = snap.pop("sql_renderer", None)
    dq = snap.pop("dbml_renderer", None)
    def h(f: Any) -> Any:
        try:
            return hashlib.sha256(f().encode("utf8", "surrogatepass")).hexdigest()[:16]
        except Exception as ex:
            return ["exc", type(ex).__name__]
    for lang, qn in (("dbml", dq), ("sql", sq)):
        if with_render and qn is not None and (qn.startswith("pydbml.renderer.") or qn.startswith("verif.e1.Nested")):
            # the elements on their own and the database, in alternating order from call to call (the texts are
            # functions of the model: the order in which a caller reads them cannot matter)
            _ORDER[0] += 1
            if _ORDER[0] % 2:
                snap["_el_" + lang] = [h(lambda: getattr(o, lang)) for o in list(db.tables) + list(db.enums)]
                snap["_" + lang] = h(lambda: getattr(db, lang))
            else:
                snap["_" + lang] = h(lambda: getattr(db, lang))
                snap["_el_" + lang] = [h(lambda: getattr(o, lang)) for o in list(db.tables) + list(db.enums)]
    return snap_digest(snap), snap


def strict_warnings(on: bool) -> Optional[List[Any]]:
    """-> the saved filter list when the strict environment was installed."""
    if not on:
        return None
    import warnings
    saved = list(warnings.filters)
    warnings.simplefilter("error", DeprecationWarning)
    try:
        from pyparsing import PyparsingDeprecationWarning
        warnings.filterwarnings("ignore", category=PyparsingDeprecationWarning)
    except ImportError:
        pass
    return saved


def touch_elements(db: Any) -> None:
    """What a caller does with a result: read the texts of single elements (of whatever renderer the database was
    given).  The texts themselves are not compared here; reading them must not matter to any other result."""
    for o in (list(db.tables)[:2] + list(db.enums)[:1] + list(db.refs)[:1]):
        for lang in ("sql", "dbml"):
            try:
                getattr(o, lang)
            except Exception:
                pass
        for sub in (getattr(o, "columns", None) or [])[:1]:
            for lang in ("sql", "dbml"):
                try:
                    getattr(sub, lang)
                except Exception:
                    pass


def outcome_of(text: str, ap: bool) -> List[str]:
    try:
        db = call_parse(text, ap, "default")
    except RecursionError:
        return ["exc", "RecursionError"]
    except Exception as e:
        return ["exc", type(e).__name__]
    if type(db).__name__ != "Database":
        return ["other", type(db).__name__]
    out = ["db", content_digest(db, False)[0], content_digest(db, True)[0]]
    try:
        out.append(content_digest(call_parse(text, ap, "nested"), True)[0])
    except Exception as e:
        out.append("exc:" + type(e).__name__)
    return out


# ---------------------------------------------------------------------- pristine + calibration

def _pristine_job(docs: List[Dict[str, Any]], k: int) -> Dict[str, Any]:
    """One forked child per (document, allow_properties): cold grammar, single
    thread, no tracer, this one call only."""
    d = docs[k // 2]
    ap = bool(k % 2)
    setup_tree()
    out = outcome_of(d["text"], ap)
    return {"counters": {}, "distinct": {}, "sample": {"k": k, "outcome": out}}


def _calib_job(docs: List[Dict[str, Any]], k: int) -> Dict[str, Any]:
    d = docs[k // 2]
    ap = bool(k % 2)
    st = setup_tree()
    sc = S.Scheduler(S.Policy(), st["own_root"], st["dep_root"])
    S.set_active(sc)

    def fn(th):
        try:
            call_parse(d["text"], ap, "default")
        except Exception:
            pass
    sc.run([fn], watchdog_s=120)
    t = sc.threads[0]
    return {"counters": {}, "distinct": {}, "sample": {"k": k, "own": t.own, "dep": t.dep}}


class _Collect(core.Agg):
    def absorb(self, res: Dict[str, Any]) -> None:
        self.runs += 1
        if res.get("sample") is not None:
            self.samples.append(res["sample"])
        if res.get("harness"):
            self.harness.append({"i": res.get("i"), "what": res["harness"]})


def _pool_collect(fn: Callable[[int], Dict[str, Any]], n: int, workers: int, timeout: float) -> List[Dict[str, Any]]:
    """Small fork-per-job pool returning every job's sample."""
    tmp = tempfile.mkdtemp(prefix="verif-prep-")
    try:
        # run_pool keeps only a few samples; collect through per-job files instead
        def job(i: int) -> Dict[str, Any]:
            r = fn(i)
            with open(os.path.join(tmp, f"j{i}.json"), "w") as f:
                json.dump(r.get("sample"), f)
            return {"counters": {}, "distinct": {}}
        agg = core.run_pool(job, list(range(n)), workers, 1800.0, timeout, tmp)
        if agg.harness:
            raise core.HarnessError(f"prepare: {agg.harness[:3]}")
        out = []
        for i in range(n):
            with open(os.path.join(tmp, f"j{i}.json")) as f:
                out.append(json.load(f))
        return out
    finally:
        import shutil
        shutil.rmtree(tmp, ignore_errors=True)


def prepare(seed: int, tier: str, workers: int, calibrate: bool = True,
            corpus_params: Optional[Tuple[int, int]] = None) -> Dict[str, Any]:
    setup_tree()  # import only: the grammar stays cold in this process
    ntmpl, maxb = corpus_params or CORPUS[tier]
    docs = corpus.build_corpus(seed, ntmpl, maxb)
    n = len(docs) * 2
    pr = _pool_collect(lambda k: _pristine_job(docs, k), n, workers, 120.0)
    pristine = {f"{p['k'] // 2}:{p['k'] % 2}": p["outcome"] for p in pr}
    calib = {}
    if calibrate:
        cal = _pool_collect(lambda k: _calib_job(docs, k), n, workers, 300.0)
        calib = {f"{c['k'] // 2}:{c['k'] % 2}": [c["own"], c["dep"]] for c in cal}
    PREP.clear()
    PREP.update({"docs": docs, "pristine": pristine, "calib": calib})
    return PREP


# ---------------------------------------------------------------------- workload

EDITS = ["project_item", "table_prop", "col_prop", "note_text", "rename_table", "add_column", "enum_item",
         "add_table", "clear_refs", "add_sticky", "col_note", "table_alias", "unset_col_type", "detach_ref_col"]


def apply_edit(db: Any, kind: str, tagno: int) -> bool:
    """Caller-side edit of one result.  -> whether anything was edited."""
    C = _state["pydbml"]
    from pydbml.classes import Column, Table, StickyNote
    v = f"edit{tagno}"
    if kind == "project_item" and db.project is not None:
        db.project.items[v] = v
    elif kind == "table_prop" and db.tables:
        db.tables[0].properties[v] = v
    elif kind == "col_prop" and db.tables and db.tables[0].columns:
        db.tables[0].columns[0].properties[v] = v
    elif kind == "note_text" and db.tables:
        db.tables[-1].note.text = v
    elif kind == "col_note" and db.tables and db.tables[0].columns:
        db.tables[0].columns[-1].note.text = v
    elif kind == "rename_table" and db.tables:
        db.tables[0].name = v
    elif kind == "table_alias" and db.tables:
        db.tables[-1].alias = v
    elif kind == "add_column" and db.tables:
        db.tables[0].add_column(Column(v, "int"))
    elif kind == "enum_item" and db.enums:
        db.enums[0].add_item(v)
    elif kind == "add_table":
        db.add(Table(v, columns=[Column("id", "int")]))
    elif kind == "clear_refs" and db.refs:
        del db.refs[:]
    elif kind == "add_sticky":
        db.add(StickyNote(v, v))
    elif kind == "unset_col_type" and db.tables and db.tables[-1].columns:
        # the caller's own result now refuses its SQL text (a required attribute is missing); nobody else's may
        db.tables[-1].columns[-1].type = None
    elif kind == "detach_ref_col" and db.refs and db.refs[0].col2 and db.refs[0].col2[0].table is not None:
        # ... and here both texts (a reference ends at a column that left its table)
        c = db.refs[0].col2[0]
        c.table.delete_column(c)
    else:
        return False
    return True


def gen_workload(rseed: int, tier: str) -> Dict[str, Any]:
    g = core.stream(rseed, "workload")
    docs = PREP["docs"]
    pristine = PREP["pristine"]
    nthreads = g.choice([1, 2, 2, 2, 3, 3, 4])
    fail_share = g.choice([0.0, 0.0, 0.2, 0.4, 0.6])
    valid = [d["id"] for d in docs if pristine[f"{d['id']}:1"][0] == "db"]
    invalid = [d["id"] for d in docs if pristine[f"{d['id']}:1"][0] != "db" or pristine[f"{d['id']}:0"][0] != "db"]
    small_bias = g.random() < 0.6
    if small_bias:
        lim = g.choice([400, 800, 1500])
        valid_s = [i for i in valid if len(docs[i]["text"]) <= lim] or valid
        invalid_s = [i for i in invalid if len(docs[i]["text"]) <= lim] or invalid
    else:
        valid_s, invalid_s = valid, invalid
    pool = []
    for _ in range(g.randint(1, 4)):
        pool.append(g.choice(invalid_s) if (invalid_s and g.random() < fail_share) else g.choice(valid_s))
    if g.random() < 0.35:
        # a family of near-identical documents (siblings), parsed by different threads / one after the other
        fam: Dict[str, List[int]] = {}
        for d in docs:
            if d["name"].startswith("tmpl") and "!" not in d["name"]:
                fam.setdefault(d["name"].split("~")[0], []).append(d["id"])
        # the nested-parenthesis family: valid documents and documents cut off inside a nested parenthesis
        nest = [d["id"] for d in docs if d["name"] in ("tmpl-nested-5", "nested-5-cut", "nested-8-cut", "nested-40")]
        if len(nest) > 1:
            fam["nested"] = nest
        fams = [v for v in fam.values() if len(v) > 1]
        if fams:
            pool = list(g.choice(fams))
            g.shuffle(pool)
            pool = pool[:4]
    maxops = g.choice([1, 2, 3, 4, 6])
    ap_mode = g.choice(["F", "T", "mix", "mix"])
    rend_mode = g.choice(["default", "default", "mix"])
    threads = []
    for t in range(nthreads):
        ops: List[List[Any]] = []
        nres = 0
        for _ in range(g.randint(1, maxops)):
            r = g.random()
            if nres == 0 or r < 0.55:
                ap = {"F": False, "T": True}.get(ap_mode, g.random() < 0.5)
                rend = "default" if rend_mode == "default" else g.choice(["default", "tagged", "bare", "nested"])
                dsel = g.choice(pool)
                op_ = ["parse", dsel, ap, rend]
                if pristine[f"{dsel}:1"][0] == "db" and g.random() < 0.2:
                    # the document is saved to this thread's file (always the same path, rewritten each time,
                    # padded to one length, time stamps frozen: a coarse file-system clock) and parsed from there
                    op_.append("path")
                ops.append(op_)
                nres += 1
            elif r < 0.8:
                ops.append(["edit", g.randrange(nres), g.choice(EDITS[-2:]) if g.random() < 0.3 else g.choice(EDITS)])
            elif r < 0.9:
                ops.append(["render", g.randrange(nres)])
            else:
                ops.append(["drop", g.randrange(nres)])
        threads.append(ops)
    warm = []
    if g.random() < 0.45:
        for _ in range(g.randint(1, 3)):
            src = pool if g.random() < 0.5 else (valid_s + invalid_s)
            warm.append([g.choice(src), g.random() < 0.5])
    used = sorted({op[1] for ops in threads for op in ops if op[0] == "parse"} | {w[0] for w in warm})
    opcodes: Any = nthreads > 1 and g.random() < float(os.environ.get("VERIF_E1_OPCODE_SHARE", "0.3"))
    if opcodes and g.random() < 0.5:
        # focus mode: instruction-level pre-emption inside ONE function of PyDBML's parser / builder code,
        # with PCT change points counted over the instructions executed in that function only
        keys = sorted(code_key(c) for c in own_code_objects() if os.path.basename(c.co_filename) in FOCUS_FILES)
        hot = [k for k in keys if k[1] in ("build_database", "parse_blueprint", "locate_table", "parse", "_set_syntax",
                                          "build", "get_reference_blueprints", "add", "add_table", "add_reference")]
        opcodes = g.choice(hot if hot and g.random() < 0.7 else keys)
    # own-only runs: pyparsing frames are not traced at all (no pre-emption inside the dependency), which makes
    # a run ~10x cheaper; with the grammar lock in place the interleavings that matter for PyDBML-level sharing
    # are those of the build phase and of the callers' own code
    trace_dep = nthreads > 1 and not opcodes and g.random() < 0.45
    return {"threads": threads, "warm": warm, "opcodes": opcodes, "trace_dep": trace_dep,
            "strict_warnings": core.stream(rseed, "env").random() < 0.15,
            "docs": {str(i): docs[i]["text"] for i in used},
            "doc_names": {str(i): docs[i]["name"] for i in used},
            "pristine": {f"{i}:{a}": pristine[f"{i}:{a}"] for i in used for a in (0, 1)},
            "calib": {f"{i}:{a}": PREP["calib"].get(f"{i}:{a}", [3 * len(docs[i]["text"]) + 20,
                                                                  400 * len(docs[i]["text"]) + 2000])
                      for i in used for a in (0, 1)},
            "params": {"nthreads": nthreads, "fail_share": fail_share, "ap_mode": ap_mode, "rend_mode": rend_mode}}


def gen_policy(rseed: int, wl: Dict[str, Any]) -> S.Policy:
    g = core.stream(rseed, "sched")
    import math
    hor_own, hor_dep = [], []
    for ops in wl["threads"]:
        o = d = 0
        for op in ops:
            if op[0] == "parse":
                c = wl["calib"].get(f"{op[1]}:{int(op[2])}", [3000, 100000])
                o += c[0]
                d += c[1]
        jit = math.exp(g.uniform(math.log(0.3), math.log(3.0)))
        hor_own.append(int(max(o, 50) * (8 if wl.get("opcodes") else 1) * jit))
        hor_dep.append(int(max(d, 500) * jit))
    mode = g.choice(["pct-own", "pct-own", "pct-own", "pct-dep", "bernoulli", "bernoulli", "quantum", "region"])
    if len(wl["threads"]) == 1:
        return S.Policy()
    if isinstance(wl.get("opcodes"), list):
        hz = int(math.exp(g.uniform(math.log(4), math.log(3000))))
        return S.PCT(g, "focus", g.choice([1, 1, 2]), [hz] * len(wl["threads"]))
    if not wl.get("trace_dep", True):
        m2 = g.choice(["pct-own", "pct-own", "pct-own", "bernoulli-own", "region"])
        if m2 == "pct-own":
            return S.PCT(g, "own", g.choice([1, 2, 3]), hor_own)
        if m2 == "bernoulli-own":
            return S.Bernoulli(g, math.exp(g.uniform(math.log(1e-3), math.log(0.3))))
        return S.RegionBiased(g, math.exp(g.uniform(math.log(0.01), math.log(0.5))),
                              math.exp(g.uniform(math.log(1e-4), math.log(1e-1))))
    if mode == "pct-own":
        return S.PCT(g, "own", g.choice([1, 2, 3]), hor_own)
    if mode == "pct-dep":
        return S.PCT(g, "dep", g.choice([1, 2, 3]), hor_dep)
    if mode == "bernoulli":
        return S.Bernoulli(g, math.exp(g.uniform(math.log(1e-5), math.log(0.3))))
    if mode == "quantum":
        return S.Quantum(g, 1, 200000)
    return S.RegionBiased(g, math.exp(g.uniform(math.log(0.01), math.log(0.5))),
                          math.exp(g.uniform(math.log(1e-5), math.log(1e-2))))


# ---------------------------------------------------------------------- one execution

class Found(Exception):
    def __init__(self, oracle: str, signature: str, detail: Any) -> None:
        super().__init__(signature)
        self.oracle, self.signature, self.detail = oracle, signature, detail


def execute(wl: Dict[str, Any], policy: S.Policy, step_cap: int = 20_000_000) -> Dict[str, Any]:
    """Run one workload under one policy in *this* process (which must be a
    fresh fork with a cold grammar).  Returns counters, violation, schedule."""
    st = setup_tree()
    gc.disable()
    _ORDER[0] = 0
    counters: Dict[str, int] = {}
    violations: List[Dict[str, Any]] = []
    census0 = census()

    def count(k: str, n: int = 1) -> None:
        counters[k] = counters.get(k, 0) + n

    def viol(oracle: str, signature: str, detail: Any) -> None:
        violations.append({"property": PROP, "oracle": oracle, "signature": signature, "detail": detail})

    # environment: a process that turns DeprecationWarning into an error (pyparsing's own API deprecation
    # notices, which PyDBML triggers on every parse, stay ignored).  PyDBML issues no warning of its own.
    saved_filters = strict_warnings(bool(wl.get("strict_warnings")))
    if saved_filters is not None:
        count("fault:deprecation-warnings-are-errors")

    pristine = wl["pristine"]
    docs = wl["docs"]

    def check_parse(where: str, doc: int, ap: bool, rend: str, res: Any, exc: Optional[BaseException]) -> Optional[str]:
        """Oracle 1.  -> expected digest if a db came back."""
        want = pristine[f"{doc}:{int(ap)}"]
        name = wl.get("doc_names", {}).get(str(doc), str(doc))
        if exc is not None:
            en = type(exc).__name__
            count("fault:doc-failed:" + en)
            if want[0] == "db":
                viol("content", f"content:valid-doc-raised:{en}",
                     {"where": where, "doc": name, "allow_properties": ap, "raised": repr(exc)[:300],
                      "frames": tb_frames(exc)})
            elif want[1] != en:
                count("exception-class-drift")
            return None
        if type(res).__name__ != "Database":
            viol("content", "content:not-a-database", {"where": where, "doc": name, "got": type(res).__name__})
            return None
        full = rend in RENDERED
        wi = WANT.get(rend, 1)
        dig, snap = content_digest(res, full)
        if want[0] != "db":
            viol("content", "content:invalid-doc-returned-db", {"where": where, "doc": name, "pristine": want})
            return dig
        if dig != want[wi]:
            viol("content", "content:differs-from-pristine",
                 {"where": where, "doc": name, "allow_properties": ap, "renderers": rend, "want": want[wi], "got": dig,
                  "got_summary": summary(snap)})
        if rend in CUSTOM:
            touch_elements(res)
            count("fault:custom-rendered-elements-read")
            tq = tuple(st["renderers"][rend])
            if res.sql_renderer is not tq[0] or res.dbml_renderer is not tq[1] or res.allow_properties != ap:
                viol("content", "content:options-not-applied", {"where": where, "doc": name})
        count("ok:parse-equals-pristine")
        return dig

    # ---- warm-up: sequential history before any thread starts
    for k, (doc, ap) in enumerate(wl["warm"]):
        try:
            r, e = call_parse(docs[str(doc)], ap, "default"), None
        except Exception as ex:
            r, e = None, ex
        check_parse(f"warm{k}", doc, ap, "default", r, e)
        del r, e
        count("fault:warm-parse")

    # ---- files for path-based parses: one fixed path per thread, one common length, frozen time stamps
    path_docs = [docs[str(op[1])] for ops_ in wl["threads"] for op in ops_ if op[0] == "parse" and len(op) > 4]
    pad_len = max([len(x.encode("utf8")) for x in path_docs] + [0])
    tmpdir = tempfile.mkdtemp(prefix="verif-e1-") if path_docs else None

    def call_parse_path(t: int, text: str, ap: bool, rend: str) -> Any:
        import pathlib
        th = sc.cur
        if th is not None:
            th.untraced += 1
        try:
            data = text.encode("utf8")
            data += b"\n" * (pad_len - len(data))      # trailing newlines carry no content
            fp = os.path.join(tmpdir, f"thread{t}.dbml")
            with open(fp, "wb") as fh:
                fh.write(data)
            os.utime(fp, ns=(1_000_000_000, 1_000_000_000))
            count("fault:path-rewritten-same-size-same-mtime")
        finally:
            if th is not None:
                th.untraced -= 1
        kw: Dict[str, Any] = {"allow_properties": ap}
        if rend in CUSTOM:
            kw["sql_renderer"], kw["dbml_renderer"] = st["renderers"][rend]
        return st["PyDBML"](pathlib.Path(fp), **kw)

    # ---- threads
    live: Dict[Tuple[int, int], Dict[str, Any]] = {}   # (thread, slot) -> {"db","expected","doc"}
    weak: List[Tuple[str, Any]] = []
    nthreads = len(wl["threads"])

    def own_check(t: int, where: str) -> None:
        for (tt, slot), ent in list(live.items()):
            if tt != t or ent.get("flagged"):
                continue
            d = content_digest(ent["db"], ent["full"])[0]
            if d != ent["expected"]:
                ent["flagged"] = True
                viol("isolation", "isolation:result-changed-without-own-edit",
                     {"where": where, "result": [tt, slot], "doc": ent["doc"]})

    def make_script(t: int, ops: List[List[Any]]) -> Callable[[S.SimThread], Any]:
        def script(th: S.SimThread) -> None:
            slots: List[Optional[Tuple[int, int]]] = []
            for k, op in enumerate(ops):
                where = f"T{t}.op{k}"
                if sys.gettrace() is None:
                    # a RecursionError raised inside the trace function switches tracing off for this thread
                    sys.settrace(sc._global_trace)
                    count("probe:trace-reinstalled")
                if op[0] == "nop":
                    if op[1]:
                        slots.append(None)
                    continue
                if op[0] == "parse":
                    _, doc, ap, rend = op[:4]
                    via_path = len(op) > 4 and op[4] == "path"
                    sc.in_parse += 1
                    if sc.parses_finished == 0 and sc.in_parse >= 2:
                        sc.cold_overlap = True
                    try:
                        if via_path:
                            res, exc = call_parse_path(t, docs[str(doc)], ap, rend), None
                        else:
                            res, exc = call_parse(docs[str(doc)], ap, rend), None
                    except Exception as ex:
                        res, exc = None, ex
                    th.untraced += 1
                    sc.in_parse -= 1
                    sc.parses_finished += 1
                    dig = check_parse(where, doc, ap, rend, res, exc)
                    if exc is not None:
                        exc.__traceback__ = None
                    if dig is not None:
                        live[(t, len(slots))] = {"db": res, "expected": dig, "doc": doc, "full": rend in RENDERED}
                        try:
                            weak.append((where + ":db", weakref.ref(res)))
                            for tb in res.tables:
                                weak.append((where + ":table", weakref.ref(tb)))
                        except TypeError:
                            pass
                        slots.append((t, len(slots)))
                    else:
                        slots.append(None)
                    del res, exc
                    own_check(t, where)
                    th.untraced -= 1
                    continue
                th.untraced += 1
                key = slots[op[1]] if op[1] < len(slots) else None
                ent = live.get(key) if key else None
                if ent is None:
                    count("skipped-op")
                elif op[0] == "edit":
                    own_check(t, where + ":pre-edit")
                    try:
                        if apply_edit(ent["db"], op[2], t * 100 + k):
                            count("fault:edit:" + op[2])
                    except Exception as ex:
                        count("edit-raised:" + type(ex).__name__)
                    ent["expected"] = content_digest(ent["db"], ent["full"])[0]
                    ent["edited"] = True
                    if sc.in_parse >= 1:
                        count("fault:edit-while-other-thread-parses")
                elif op[0] == "render":
                    th.untraced -= 1
                    try:
                        if op[1] % 2:
                            touch_elements(ent["db"])
                        ent["db"].dbml
                        ent["db"].sql
                        if not op[1] % 2:
                            touch_elements(ent["db"])
                    except Exception as ex:
                        counters["render-raised:" + type(ex).__name__] = counters.get("render-raised:" + type(ex).__name__, 0) + 1
                    th.untraced += 1
                    count("ok:render")
                    own_check(t, where)
                elif op[0] == "drop":
                    del live[key]
                    ent = None
                    gc.collect()
                    count("fault:drop-and-gc")
                th.untraced -= 1
        return script

    sc = S.Scheduler(policy, st["own_root"], st["dep_root"] if wl.get("trace_dep", True) else (), step_cap=step_cap)
    if wl.get("opcodes"):
        codes = own_code_objects()
        if isinstance(wl["opcodes"], list):   # focus mode: instruction events in one function only
            codes = [c for c in codes if code_key(c) == wl["opcodes"]]
        sc.enable_opcodes(codes)
    sc.parses_finished = 0
    sc.cold_overlap = False
    S.set_active(sc)
    harness = None
    try:
        sc.run([make_script(t, ops) for t, ops in enumerate(wl["threads"])], watchdog_s=300.0)
    except RuntimeError as ex:
        harness = str(ex)
    S.set_active(None)
    if sc.broken:
        harness = "scheduler invariant broken: " + sc.broken
    for t in sc.threads:
        if t.error is not None:
            if isinstance(t.error, SystemExit) and str(t.error) == "stepcap":
                count("stepcap")
            else:
                harness = "script error in T%d: %s" % (t.idx, "".join(
                    traceback.format_exception(type(t.error), t.error, t.error.__traceback__))[-2500:])
    if sc.deadlock:
        viol("termination", "termination:deadlock", {"what": sc.deadlock})

    if harness is None and not sc.deadlock and not counters.get("stepcap"):
        # ---- quiescent point: isolation over all live results
        for (t, slot), ent in live.items():
            if ent.get("flagged"):
                continue
            if content_digest(ent["db"], ent["full"])[0] != ent["expected"]:
                viol("isolation", "isolation:result-changed-without-own-edit",
                     {"where": "quiescent", "result": [t, slot], "doc": ent["doc"]})
        seen: Dict[int, Tuple[Tuple[int, int], str]] = {}
        for key, ent in live.items():
            for oid, path in mutable_ids(ent["db"]).items():
                if oid in seen and seen[oid][0] != key:
                    viol("isolation", "isolation:shared-mutable-object",
                         {"a": list(seen[oid][0]), "a_path": seen[oid][1], "b": list(key), "b_path": path})
                    break
                seen[oid] = (key, path)
        seen.clear()
        ent = key = None
        # ---- no lasting damage: every document used, once more, sequentially
        for ds in sorted(docs, key=int):
            for ap in (False, True):
                try:
                    r, e = call_parse(docs[ds], ap, "default"), None
                except Exception as ex:
                    r, e = None, ex
                n0 = len(violations)
                check_parse(f"after:{ds}:{int(ap)}", int(ds), ap, "default", r, e)
                for v in violations[n0:]:
                    v["signature"] = "lasting-damage:" + v["signature"]
                    v["oracle"] = "lasting-damage"
                del r, e
        # ---- reclaim
        live.clear()
        gc.collect()
        alive = [w for w, ref in weak if ref() is not None]
        palive = sum(1 for ref in st["parsers"] if ref() is not None)
        if alive:
            viol("reclaim", "reclaim:result-still-referenced", {"alive": alive[:6], "n": len(alive)})
        if palive:
            viol("reclaim", "reclaim:parser-still-referenced", {"n": palive})
        cz = census()
        extra = {k: v - census0.get(k, 0) for k, v in cz.items() if v - census0.get(k, 0) > 0}
        if extra and not alive and not palive:
            viol("reclaim", "reclaim:census", {"instances_left": extra})
        count("probe:reclaim-checked")
        if not st["parser_wrapped"]:
            count("parser-wrapper-skipped")

    if tmpdir:
        import shutil
        shutil.rmtree(tmpdir, ignore_errors=True)
    if saved_filters is not None:
        import warnings
        warnings.filters[:] = saved_filters
        getattr(warnings, "_filters_mutated", lambda: None)()
    out: Dict[str, Any] = {"counters": counters, "violations": violations, "schedule": sc.schedule_json(),
                           "policy": policy.describe(), "harness": harness,
                           "steps": sc.total_steps, "switches": len(sc.voluntary),
                           "overlap": sc.overlap_seen, "cold_overlap": sc.cold_overlap,
                           "hot_switches": sc.hot_switches, "opcodes": sc.opcodes,
                           "lock_contention": sum(getattr(l, "contended", 0) for l in st["locks"]),
                           "lock_wait_expired": sum(getattr(l, "expired", 0) for l in st["locks"]),
                           "per_thread_steps": [[t.own, t.dep] for t in sc.threads]}
    return out


def census() -> Dict[str, int]:
    out: Dict[str, int] = {}
    for o in gc.get_objects():
        tp = type(o)
        mod = getattr(tp, "__module__", "") or ""
        if mod.startswith("pydbml") and not isinstance(o, type) and hasattr(tp, "__mro__") \
                and not issubclass(tp, BaseException):
            out[tp.__name__] = out.get(tp.__name__, 0) + 1
    return out


def tb_frames(exc: BaseException) -> List[str]:
    out = []
    tb = exc.__traceback__
    while tb is not None:
        fn = tb.tb_frame.f_code.co_filename
        if "pyparsing" in fn or "pydbml" in fn:
            out.append(f"{os.path.basename(fn)}:{tb.tb_frame.f_code.co_name}:{tb.tb_lineno}")
        tb = tb.tb_next
    return out[-4:]


def summary(snap: Dict[str, Any]) -> Dict[str, Any]:
    return {"tables": [[t["schema"][1], t["name"][1], len(t["columns"])] for t in snap["tables"]],
            "refs": len(snap["refs"]), "enums": len(snap["enums"]), "groups": len(snap["table_groups"]),
            "notes": len(snap["sticky_notes"]), "project": None if snap["project"] is None else snap["project"]["name"],
            "dbml_text_digest": snap.get("_dbml"), "sql_text_digest": snap.get("_sql")}


# ---------------------------------------------------------------------- driver

class E1Driver:
    engine = "E1"
    prop = PROP

    def n_runs(self, tier: str) -> int:
        return RUNS[tier]

    def wall_cap(self, tier: str) -> float:
        return WALL_CAP[tier]

    def per_run_timeout(self, tier: str) -> float:
        return 400.0

    def prepare_shard(self, seed: int, tier: str, hashseed: str, prep_dir: Optional[str]) -> None:
        workers = int(os.environ.get("VERIF_PREP_WORKERS", "8"))
        # step-count calibration by a traced solo parse costs ~20 s per batch; the estimate own ~ 3 x len,
        # dependency ~ 400 x len (measured: within a factor 3) with a per-run jitter serves the PCT horizons as well
        prepare(seed, tier, workers, calibrate=bool(os.environ.get("VERIF_E1_CALIBRATE")))
        if prep_dir:
            os.makedirs(prep_dir, exist_ok=True)
            with open(os.path.join(prep_dir, "pristine.json"), "w") as f:
                json.dump(PREP["pristine"], f)

    def setup_worker(self) -> None:
        setup_tree()

    def crosscheck(self, prep_dirs: List[str], hashseeds: List[str], seed: int, tier: str = "quick") -> List[Dict[str, Any]]:
        tabs = []
        for d in prep_dirs:
            try:
                with open(os.path.join(d, "pristine.json")) as f:
                    tabs.append(json.load(f))
            except Exception:
                return []
        out: List[Dict[str, Any]] = []
        if len(tabs) == 2 and tabs[0] != tabs[1]:
            diff = [k for k in tabs[0] if tabs[0][k] != tabs[1].get(k)]
            docs = corpus.build_corpus(seed, *CORPUS[tier])
            k0 = diff[0]
            doc = docs[int(k0.split(":")[0])] if int(k0.split(":")[0]) < len(docs) else {"text": "", "name": "?"}
            out.append({"engine": "E1", "property": PROP, "seed": seed, "run": "pristine", "hashseed": hashseeds[0],
                        "kind": "hashseed", "hashseeds": hashseeds, "doc": doc, "allow_properties": bool(int(k0.split(":")[1])),
                        "ops": [], "violation": {"property": PROP, "oracle": "content",
                                                 "signature": "content:pristine-depends-on-hash-seed",
                                                 "detail": {"differing": len(diff), "first": k0, "doc": doc.get("name"),
                                                            "outcomes": [tabs[0][k0], tabs[1].get(k0)]}}})
        return out

    def run_one(self, i: int, seed: int, tier: str, hashseed: str) -> Dict[str, Any]:
        rseed = core.run_seed(seed, PROP, i)
        wl = gen_workload(rseed, tier)
        policy = gen_policy(rseed, wl)
        res = execute(wl, policy)
        counters = res["counters"]
        counters["steps"] = res["steps"]
        counters["fault:pre-emption"] = res["switches"]
        counters["fault:pre-emption-in-hot-region"] = res["hot_switches"]
        counters["fault:lock-contention"] = res["lock_contention"]
        if res.get("lock_wait_expired"):
            counters["fault:lock-bounded-wait-expired"] = res["lock_wait_expired"]
        counters["mode:" + res["policy"]["mode"]] = 1
        counters[f"threads:{len(wl['threads'])}"] = 1
        if res["overlap"]:
            counters["probe:two-threads-inside-parse"] = 1
        if res["cold_overlap"]:
            counters["fault:cold-start-concurrency"] = 1
        if res.get("opcodes"):
            counters["fault:opcode-level-pre-emption-run"] = 1
        if isinstance(wl.get("opcodes"), list):
            counters["fault:opcode-focus-run"] = 1
        counters["tracing:" + ("own+dependency" if wl.get("trace_dep", True) else "own-only")] = 1
        aps = {op[2] for ops in wl["threads"] for op in ops if op[0] == "parse"}
        if len(aps) == 2 and len(wl["threads"]) > 1:
            counters["fault:option-mix"] = 1
        out: Dict[str, Any] = {"counters": counters, "distinct": {}}
        sched_dig = core.digest(res["schedule"])
        out["distinct"]["history"] = core.digest([wl["threads"], wl["warm"], sched_dig])
        if res["overlap"]:
            out["distinct"]["nontrivial"] = sched_dig
        if res["harness"]:
            out["harness"] = res["harness"]
        if i < 2 or i % 499 == 0:
            out["sample"] = {"run": i, "threads": wl["threads"], "warm": wl["warm"], "policy": res["policy"],
                             "switches": res["schedule"]["voluntary"][:12], "n_switches": res["switches"],
                             "steps": res["per_thread_steps"]}
        if res["violations"]:
            v = res["violations"][0]
            payload = {"engine": "E1", "property": PROP, "seed": seed, "run": i, "run_seed": rseed,
                       "hashseed": hashseed, "tier": tier,
                       "workload": {k: wl[k] for k in ("threads", "warm", "opcodes", "trace_dep", "docs", "doc_names", "pristine",
                                                        "strict_warnings")},
                       "schedule": res["schedule"], "policy": res["policy"], "violation": v,
                       "all_violations": [x["signature"] for x in res["violations"]],
                       "event_digest": sched_dig, "ops": [None] * (res["switches"] + sum(len(o) for o in wl["threads"]))}
            out["violation"] = payload
        return out

    # ---- replay
    def replay_once(self, workload: Dict[str, Any], schedule: Dict[str, Any]) -> Dict[str, Any]:
        def fn() -> Dict[str, Any]:
            setup_tree()
            wl = dict(workload)
            wl.setdefault("calib", {})
            pol = S.Replay(schedule["first"], [list(x) for x in schedule["voluntary"]], list(schedule["forced"]))
            res = execute(wl, pol)
            return {"violations": res["violations"], "schedule": res["schedule"], "harness": res["harness"]}
        res = core.fork_run(fn, 400.0)
        if res.get("harness"):
            raise core.HarnessError(str(res["harness"]))
        return res

    def replay(self, payload: Dict[str, Any]) -> Optional[Dict[str, Any]]:
        if payload.get("kind") == "hashseed":
            import subprocess
            outs = []
            code = ("import sys, json; sys.path.insert(0, %r); from sim import e1_threads as E; E.setup_tree(); "
                    "print(json.dumps(E.outcome_of(sys.stdin.read(), %r)))" % (core.VERIF_DIR, payload["allow_properties"]))
            for hs in payload["hashseeds"]:
                r = subprocess.run([sys.executable, "-c", code], input=payload["doc"]["text"], capture_output=True,
                                   text=True, env=dict(os.environ, PYTHONHASHSEED=str(hs)), timeout=300)
                outs.append(r.stdout.strip())
            if outs[0] != outs[1]:
                v = dict(payload["violation"])
                v["detail"] = {"outcomes": outs}
                return v
            return None
        res = self.replay_once(payload["workload"], payload["schedule"])
        want = payload.get("violation", {}).get("signature")
        for v in res["violations"]:
            if v["signature"] == want:
                v = dict(v)
                v["event_digest"] = core.digest(res["schedule"])
                return v
        return res["violations"][0] if res["violations"] else None

    def minimize(self, payload: Dict[str, Any], budget_s: float = 150.0) -> Dict[str, Any]:
        if payload.get("kind") == "hashseed":
            return payload
        return self._minimize(payload, budget_s)

    def _minimize(self, payload: Dict[str, Any], budget_s: float = 150.0) -> Dict[str, Any]:
        """Drop whole threads, operations, warm-up parses and then context
        switches, keeping a candidate only if the same oracle signature fails."""
        import copy
        import time
        sig = payload["violation"]["signature"]
        wl = copy.deepcopy(payload["workload"])
        schd = copy.deepcopy(payload["schedule"])
        t0 = time.monotonic()
        tests = 0

        def fails(w: Dict[str, Any], s: Dict[str, Any]) -> bool:
            nonlocal tests
            if time.monotonic() - t0 > budget_s:
                return False
            tests += 1
            try:
                res = self.replay_once(w, s)
            except core.HarnessError:
                return False
            return any(v["signature"] == sig for v in res["violations"])

        if not fails(wl, schd):
            out = dict(payload)
            out["minimiser_note"] = "original did not reproduce under replay; not minimised"
            return out
        # 1. whole threads
        for t in range(len(wl["threads"])):
            if not any(op[0] != "nop" for op in wl["threads"][t]):
                continue
            cand = copy.deepcopy(wl)
            cand["threads"][t] = [["nop", False]]
            if fails(cand, schd):
                wl = cand
        # 2. warm-up
        for k in reversed(range(len(wl["warm"]))):
            cand = copy.deepcopy(wl)
            del cand["warm"][k]
            if fails(cand, schd):
                wl = cand
        # 3. single operations, last first
        for t in range(len(wl["threads"])):
            for k in reversed(range(len(wl["threads"][t]))):
                op = wl["threads"][t][k]
                if op[0] == "nop":
                    continue
                cand = copy.deepcopy(wl)
                cand["threads"][t][k] = ["nop", op[0] == "parse"]
                if fails(cand, schd):
                    wl = cand
        # 4. ddmin over voluntary switches
        vol = list(schd["voluntary"])
        n = 2
        while len(vol) >= 1 and time.monotonic() - t0 < budget_s:
            chunk = max(1, len(vol) // n)
            reduced = False
            for start in range(0, len(vol), chunk):
                cv = vol[:start] + vol[start + chunk:]
                if fails(wl, {"first": schd["first"], "voluntary": cv, "forced": schd["forced"]}):
                    vol = cv
                    n = max(n - 1, 2)
                    reduced = True
                    break
            if not reduced:
                if chunk == 1:
                    break
                n = min(len(vol), n * 2)
        schd = {"first": schd["first"], "voluntary": vol, "forced": schd["forced"]}
        used = {str(op[1]) for ops in wl["threads"] for op in ops if op[0] == "parse"} | {str(w[0]) for w in wl["warm"]}
        wl["docs"] = {k: v for k, v in wl["docs"].items() if k in used}
        wl["doc_names"] = {k: v for k, v in wl.get("doc_names", {}).items() if k in used}
        wl["pristine"] = {k: v for k, v in wl["pristine"].items() if k.split(":")[0] in used}
        out = dict(payload)
        out["workload"], out["schedule"] = wl, schd
        res = self.replay_once(wl, schd)
        vs = [v for v in res["violations"] if v["signature"] == sig]
        if not vs:
            out2 = dict(payload)
            out2["minimiser_note"] = "minimised candidate did not reproduce on confirmation; original kept"
            return out2
        out["violation"] = vs[0]
        out["event_digest"] = core.digest(res["schedule"])
        out["minimised_from"] = {"switches": len(payload["schedule"]["voluntary"]),
                                 "ops": sum(len(o) for o in payload["workload"]["threads"])}
        out["minimiser_tests"] = tests
        return out

    def coverage(self, agg: Any, tier: str) -> Dict[str, Any]:
        c = agg.counters
        return {
            "rule": "one case = warm-up parses + 1-4 simulated caller threads with <= 6 operations each (parse of a "
                    "valid or failing corpus document with drawn options / edit of an own earlier result / render / "
                    "drop) under one seeded pre-emption policy (PCT over own or dependency steps, Bernoulli, quantum, "
                    "region-biased); non-trivial = at some context switch >= 2 threads were inside a parse call; "
                    "distinct = distinct context-switch-trace digests among those",
            "modes": {k[5:]: v for k, v in sorted(c.items()) if k.startswith("mode:")},
            "thread_counts": {k[8:]: v for k, v in sorted(c.items()) if k.startswith("threads:")},
            "components": {
                "real": ["all of pydbml", "all of pyparsing", "CPython threads (one runnable at a time)"],
                "stub": ["OS thread scheduler (replaced by the baton: sys.settrace line events are the pre-emption "
                         "points)", "threading.Lock/RLock objects of pydbml/pyparsing (replaced by SimLock/SimRLock "
                         "blocking in the scheduler)"]},
            "stepcap_hits": c.get("stepcap", 0),
            "_level": "exploration",
            "_assumptions": [
                "pre-emption at line granularity in Python frames of pydbml/pyparsing; races needing a switch inside "
                "one line's bytecode are missed, never invented",
                "the pristine oracle is a single-threaded cold parse by the same code: a change that makes every parse "
                "wrong in the same way is invisible here",
                "bounds: <= 4 threads, <= 6 ops per thread, corpus documents of bounded size",
            ],
            "_exit2": ("probe 'two threads inside parse' never fired" if tier == "thorough"
                       and not c.get("probe:two-threads-inside-parse") else None),
        }
