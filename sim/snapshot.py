"""Canonical, identity-aware snapshot of a Database (DESIGN 2.3).

Walks public attributes only.  Never calls __eq__ / __repr__ of model objects
and never calls a renderer, so that it stays an independent observer of the
code under test.  Robust against inconsistent models (C17 profile).
"""
from __future__ import annotations

import hashlib
import json
from typing import Any, Dict, List

PRIM = (type(None), bool, int, float, str)


def qual(cls: Any) -> str:
    try:
        return f"{cls.__module__}.{cls.__qualname__}"
    except Exception:
        return repr(cls)


def tag(v: Any) -> Any:
    if v is None or isinstance(v, (bool, str)):
        return [type(v).__name__, v]
    if isinstance(v, int):
        return ["int", v]
    if isinstance(v, float):
        return ["float", repr(v)]
    if type(v).__name__ == "Expression" and hasattr(v, "text"):
        return ["Expression", tag(v.text)]
    if type(v).__name__ == "Note" and hasattr(v, "text"):
        return ["Note", tag(v.text)]
    if isinstance(v, (list, tuple)):
        return [type(v).__name__, [tag(x) for x in v]]
    if isinstance(v, dict):
        return ["dict", [[tag(k), tag(x)] for k, x in v.items()]]
    return ["other", type(v).__name__]


def note_snap(n: Any, owner: Any) -> Any:
    if n is None:
        return None
    if type(n).__name__ != "Note":
        return tag(n)
    return {"text": tag(getattr(n, "text", None)), "parent_ok": getattr(n, "parent", None) is owner}


def props_snap(p: Any) -> Any:
    if isinstance(p, dict):
        return [[tag(k), tag(v)] for k, v in p.items()]
    return tag(p)


def snapshot(db: Any) -> Dict[str, Any]:
    tables: List[Any] = list(db.tables)
    tidx = {id(t): i for i, t in enumerate(tables)}
    cidx = {}
    for i, t in enumerate(tables):
        for j, c in enumerate(getattr(t, "columns", [])):
            cidx.setdefault(id(c), [i, j])
    eidx = {id(e): k for k, e in enumerate(db.enums)}

    def col_ref(c: Any) -> Any:
        if id(c) in cidx:
            return cidx[id(c)]
        t = getattr(c, "table", None)
        return ["dangling", tag(getattr(c, "name", None)),
                None if t is None else [tag(getattr(t, "schema", None)), tag(getattr(t, "name", None))]]

    def table_ref(t: Any) -> Any:
        if id(t) in tidx:
            return tidx[id(t)]
        if isinstance(t, str):
            return ["str", t]
        return ["foreign", tag(getattr(t, "schema", None)), tag(getattr(t, "name", None))]

    def enum_snap(e: Any, owner_db: Any) -> Any:
        return {
            "name": tag(e.name), "schema": tag(e.schema), "comment": tag(e.comment),
            "items": [{"name": tag(it.name), "note": note_snap(it.note, it), "comment": tag(it.comment)}
                      for it in e.items],
            "database_is_db": getattr(e, "database", None) is owner_db,
        }

    def col_snap(c: Any, t: Any) -> Any:
        ty = c.type
        if isinstance(ty, str) or ty is None:
            tys = tag(ty)
        elif id(ty) in eidx:
            tys = ["enum", eidx[id(ty)]]
        elif type(ty).__name__ == "Enum":
            tys = ["foreign-enum", enum_snap(ty, None)]
        else:
            tys = tag(ty)
        return {
            "name": tag(c.name), "type": tys, "unique": tag(c.unique), "not_null": tag(c.not_null),
            "pk": tag(c.pk), "autoinc": tag(c.autoinc), "default": tag(c.default),
            "note": note_snap(c.note, c), "comment": tag(c.comment), "properties": props_snap(c.properties),
            "table_is_table": getattr(c, "table", None) is t,
        }

    def subj_snap(s: Any, t: Any) -> Any:
        if isinstance(s, str):
            return ["str", s]
        if type(s).__name__ == "Column":
            for j, c in enumerate(t.columns):
                if c is s:
                    return ["col", j]
            return ["foreign-col", col_ref(s)]
        return tag(s)

    def idx_snap(ix: Any, t: Any) -> Any:
        return {
            "subjects": [subj_snap(s, t) for s in ix.subjects] if isinstance(ix.subjects, (list, tuple)) else tag(ix.subjects),
            "name": tag(ix.name), "unique": tag(ix.unique), "type": tag(ix.type), "pk": tag(ix.pk),
            "note": note_snap(ix.note, ix), "comment": tag(ix.comment),
            "table_is_table": getattr(ix, "table", None) is t,
        }

    def table_snap(t: Any) -> Any:
        return {
            "schema": tag(t.schema), "name": tag(t.name), "alias": tag(t.alias),
            "header_color": tag(t.header_color), "comment": tag(t.comment),
            "note": note_snap(t.note, t), "properties": props_snap(t.properties),
            "abstract": tag(t.abstract), "database_is_db": getattr(t, "database", None) is db,
            "columns": [col_snap(c, t) for c in t.columns],
            "indexes": [idx_snap(ix, t) for ix in t.indexes],
        }

    def ref_snap(r: Any) -> Any:
        return {
            "type": tag(r.type), "_inline": tag(getattr(r, "_inline", None)), "name": tag(r.name),
            "on_update": tag(r.on_update), "on_delete": tag(r.on_delete), "comment": tag(r.comment),
            "col1": [col_ref(c) for c in r.col1] if isinstance(r.col1, (list, tuple)) else tag(r.col1),
            "col2": [col_ref(c) for c in r.col2] if isinstance(r.col2, (list, tuple)) else tag(r.col2),
            "database_is_db": getattr(r, "database", None) is db,
        }

    def group_snap(g: Any) -> Any:
        return {
            "name": tag(g.name), "comment": tag(g.comment), "color": tag(g.color),
            "note": note_snap(g.note, g) if type(g.note).__name__ == "Note" else tag(g.note),
            "items": [table_ref(x) for x in g.items],
            "database_is_db": getattr(g, "database", None) is db,
        }

    p = db.project
    snap = {
        "allow_properties": tag(db.allow_properties),
        "sql_renderer": qual(db.sql_renderer), "dbml_renderer": qual(db.dbml_renderer),
        "tables": [table_snap(t) for t in tables],
        "refs": [ref_snap(r) for r in db.refs],
        "enums": [enum_snap(e, db) for e in db.enums],
        "table_groups": [group_snap(g) for g in db.table_groups],
        "sticky_notes": [{"name": tag(n.name), "text": tag(n.text),
                          "database_is_db": getattr(n, "database", None) is db} for n in db.sticky_notes],
        "project": None if p is None else {
            "name": tag(p.name), "items": props_snap(p.items), "note": note_snap(p.note, p),
            "comment": tag(p.comment), "database_is_db": getattr(p, "database", None) is db},
        "table_dict": sorted([k, table_ref(v)] for k, v in db.table_dict.items()),
    }
    return snap


def snap_digest(snap: Any) -> str:
    return hashlib.sha256(json.dumps(snap, sort_keys=True, ensure_ascii=True).encode()).hexdigest()[:16]


def mutable_ids(db: Any) -> Dict[int, str]:
    """ids of every mutable object reachable from a database through public
    attributes (model objects, lists, dicts) -> a short description.  Used by
    the 'no two results share a mutable sub-object' oracle."""
    out: Dict[int, str] = {}
    seen = set()
    stack = [(db, "db")]
    while stack:
        o, path = stack.pop()
        if isinstance(o, PRIM) or isinstance(o, type) or callable(o) and not hasattr(o, "__dict__"):
            continue
        if id(o) in seen:
            continue
        seen.add(id(o))
        if isinstance(o, (list, tuple)):
            if isinstance(o, list):
                out[id(o)] = path
            for k, x in enumerate(o):
                stack.append((x, f"{path}[{k}]"))
        elif isinstance(o, dict):
            out[id(o)] = path
            for k, x in o.items():
                stack.append((x, f"{path}[{k!r}]"))
        elif type(o).__module__.startswith("pydbml"):
            out[id(o)] = path + ":" + type(o).__name__
            for k, x in vars(o).items():
                stack.append((x, f"{path}.{k}"))
    return out
