"""Baton-passing deterministic thread scheduler (DESIGN 3.2).

Real threading.Thread objects, but exactly one of them is runnable at any
time: a thread runs only while it holds the baton.  `sys.settrace` line events
in frames of the tree under test ("own" steps) and of pyparsing ("dep" steps)
are the pre-emption points; a policy (seeded, or an explicit replay list)
decides at each of them whether and to whom the baton moves.  Locks used by
the code under test are replaced by SimLock/SimRLock which block in the
scheduler, never in the OS.

Every interleaving produced is a legal CPython interleaving (the GIL can be
released between any two bytecodes, hence between any two lines).
"""
from __future__ import annotations

import _thread
import math
import random
import sys
import threading
from typing import Any, Callable, Dict, List, Optional, Tuple

INF = 1 << 60

HOT_NAMES = frozenset((
    "streamline", "default_name", "_generateDefaultName", "copy", "_set_syntax", "parse_blueprint",
    "build_database", "locate_table", "build", "_setResultsName", "__str__", "set_parse_action",
    "add_parse_action", "addParseAction", "get_reference_blueprints", "parse",
))


class Deadlock(Exception):
    pass


class SimThread:
    __slots__ = ("idx", "fn", "baton", "state", "own", "dep", "total", "cd_all", "cd_own", "cd_dep", "cd_hot",
                 "cd_focus", "focus",
                 "untraced", "error", "prio", "cps", "thread", "result", "hot_hits", "waiting_on")

    def __init__(self, idx: int, fn: Callable[["SimThread"], Any]) -> None:
        self.idx = idx
        self.fn = fn
        self.baton = _thread.allocate_lock()
        self.baton.acquire()
        self.state = "ready"  # ready | blocked | done
        self.own = 0
        self.dep = 0
        self.total = 0
        self.cd_all = INF
        self.cd_own = INF
        self.cd_dep = INF
        self.cd_hot = INF
        self.cd_focus = INF
        self.focus = 0
        self.untraced = 0
        self.error: Optional[BaseException] = None
        self.prio = 0.0
        self.cps: List[int] = []
        self.thread: Optional[threading.Thread] = None
        self.result: Any = None
        self.hot_hits = 0
        self.waiting_on: Any = None


class Policy:
    """Base: never pre-empts."""
    name = "none"

    def init(self, sched: "Scheduler") -> None:
        pass

    def first(self, sched: "Scheduler") -> int:
        return 0

    def decide(self, sched: "Scheduler", th: SimThread, space: str) -> int:
        return th.idx

    def forced(self, sched: "Scheduler", runnable: List[int]) -> int:
        return runnable[0]

    def describe(self) -> Dict[str, Any]:
        return {"mode": self.name}


def _geom(rng: random.Random, p: float) -> int:
    if p >= 1.0:
        return 1
    u = rng.random()
    return int(math.log(1.0 - u) / math.log(1.0 - p)) + 1


class Bernoulli(Policy):
    name = "bernoulli"

    def __init__(self, rng: random.Random, p: float) -> None:
        self.rng, self.p = rng, p

    def init(self, sched: "Scheduler") -> None:
        for t in sched.threads:
            t.cd_all = _geom(self.rng, self.p)

    def first(self, sched: "Scheduler") -> int:
        return self.rng.randrange(len(sched.threads))

    def decide(self, sched: "Scheduler", th: SimThread, space: str) -> int:
        th.cd_all = _geom(self.rng, self.p)
        r = sched.runnable()
        return self.rng.choice(r)

    def forced(self, sched: "Scheduler", runnable: List[int]) -> int:
        return self.rng.choice(runnable)

    def describe(self) -> Dict[str, Any]:
        return {"mode": self.name, "p": self.p}


class Quantum(Bernoulli):
    name = "quantum"

    def __init__(self, rng: random.Random, lo: int, hi: int) -> None:
        self.rng, self.lo, self.hi = rng, lo, hi

    def _q(self) -> int:
        return int(math.exp(self.rng.uniform(math.log(self.lo), math.log(self.hi))))

    def init(self, sched: "Scheduler") -> None:
        for t in sched.threads:
            t.cd_all = self._q()

    def decide(self, sched: "Scheduler", th: SimThread, space: str) -> int:
        th.cd_all = self._q()
        r = [i for i in sched.runnable() if i != th.idx] or [th.idx]
        return self.rng.choice(r)

    def describe(self) -> Dict[str, Any]:
        return {"mode": self.name, "lo": self.lo, "hi": self.hi}


class RegionBiased(Bernoulli):
    """High pre-emption probability inside named functions, low elsewhere."""
    name = "region"

    def __init__(self, rng: random.Random, p_hot: float, p_cold: float) -> None:
        self.rng, self.p_hot, self.p = rng, p_hot, p_cold

    def init(self, sched: "Scheduler") -> None:
        sched.use_hot = True
        for t in sched.threads:
            t.cd_all = _geom(self.rng, self.p)
            t.cd_hot = _geom(self.rng, self.p_hot)

    def decide(self, sched: "Scheduler", th: SimThread, space: str) -> int:
        if space == "hot":
            th.cd_hot = _geom(self.rng, self.p_hot)
        else:
            th.cd_all = _geom(self.rng, self.p)
        r = [i for i in sched.runnable() if i != th.idx] or [th.idx]
        return self.rng.choice(r)

    def describe(self) -> Dict[str, Any]:
        return {"mode": self.name, "p_hot": self.p_hot, "p_cold": self.p}


class PCT(Policy):
    """Strict random priorities; each thread has d change points over its own
    (or dependency) step index; on reaching one it drops below everyone."""

    def __init__(self, rng: random.Random, space: str, d: int, horizon: List[int]) -> None:
        self.rng, self.space, self.d, self.horizon = rng, space, d, horizon
        self.name = "pct-" + space
        self.low = 0.0

    def init(self, sched: "Scheduler") -> None:
        n = len(sched.threads)
        pr = list(range(1, n + 1))
        self.rng.shuffle(pr)
        for t, p in zip(sched.threads, pr):
            t.prio = float(p)
            h = max(2, self.horizon[t.idx] if t.idx < len(self.horizon) else 1000)
            t.cps = sorted(self.rng.randrange(1, h) for _ in range(self.d))
            self._arm(t)

    def _arm(self, t: SimThread) -> None:
        cur = {"own": t.own, "dep": t.dep, "focus": t.focus}[self.space]
        while t.cps and t.cps[0] <= cur:
            t.cps.pop(0)
        nxt = (t.cps[0] - cur) if t.cps else INF
        if self.space == "own":
            t.cd_own = nxt
        elif self.space == "focus":
            t.cd_focus = nxt
        else:
            t.cd_dep = nxt

    def _best(self, sched: "Scheduler", runnable: List[int]) -> int:
        return max(runnable, key=lambda i: sched.threads[i].prio)

    def first(self, sched: "Scheduler") -> int:
        return self._best(sched, list(range(len(sched.threads))))

    def decide(self, sched: "Scheduler", th: SimThread, space: str) -> int:
        self.low -= 1.0
        th.prio = self.low
        self._arm(th)
        return self._best(sched, sched.runnable())

    def forced(self, sched: "Scheduler", runnable: List[int]) -> int:
        return self._best(sched, runnable)

    def describe(self) -> Dict[str, Any]:
        return {"mode": self.name, "d": self.d, "horizon": self.horizon}


class Replay(Policy):
    """Explicit schedule: voluntary switches keyed by (thread, total step
    count of that thread), forced switches consumed in order.  When the list
    runs out or names a thread that is not runnable, the lexicographically
    first runnable thread is taken, so a replay file always denotes exactly
    one execution."""
    name = "replay"

    def __init__(self, first: int, voluntary: List[List[int]], forced: List[int]) -> None:
        self.first_idx = first
        self.vol: Dict[int, List[Tuple[int, int]]] = {}
        for th, step, target in voluntary:
            self.vol.setdefault(th, []).append((step, target))
        for v in self.vol.values():
            v.sort()
        self.forced_list = list(forced)

    def init(self, sched: "Scheduler") -> None:
        for t in sched.threads:
            self._arm(t)

    def _arm(self, t: SimThread) -> None:
        v = self.vol.get(t.idx, [])
        while v and v[0][0] <= t.total:
            v.pop(0)
        t.cd_all = (v[0][0] - t.total) if v else INF

    def first(self, sched: "Scheduler") -> int:
        return self.first_idx if 0 <= self.first_idx < len(sched.threads) else 0

    def decide(self, sched: "Scheduler", th: SimThread, space: str) -> int:
        v = self.vol.get(th.idx, [])
        target = th.idx
        if v and v[0][0] == th.total:
            target = v[0][1]
        self._arm(th)
        r = sched.runnable()
        if target not in r:
            target = th.idx
        return target

    def forced(self, sched: "Scheduler", runnable: List[int]) -> int:
        if self.forced_list:
            t = self.forced_list.pop(0)
            if t in runnable:
                return t
        return runnable[0]


class Scheduler:
    def __init__(self, policy: Policy, roots_own: Tuple[str, ...], roots_dep: Tuple[str, ...],
                 step_cap: int = 20_000_000, on_abort: Optional[Callable[[str], None]] = None) -> None:
        self.policy = policy
        self.roots_own = roots_own
        self.roots_dep = roots_dep
        self.threads: List[SimThread] = []
        self.cur: Optional[SimThread] = None
        self.step_cap = step_cap
        self.on_abort = on_abort
        self.kind_cache: Dict[str, int] = {}
        self.use_hot = False
        self.first_idx = 0
        self.voluntary: List[List[int]] = []
        self.forced: List[int] = []
        self.done = _thread.allocate_lock()
        self.done.acquire()
        self.deadlock: Optional[str] = None
        self.hot_switches = 0
        self.in_parse = 0          # number of threads currently inside a parse call (maintained by the workload)
        self.overlap_seen = False  # >= 2 threads inside a parse at the same time
        self.total_steps = 0
        self.opcodes = 0
        self.broken: Optional[str] = None

    # ------------------------------------------------------------ tracing
    def _kind(self, filename: str) -> int:
        k = self.kind_cache.get(filename)
        if k is None:
            if filename.startswith(self.roots_own):
                k = 1
            elif filename.startswith(self.roots_dep):
                k = 2
            else:
                k = 0
            self.kind_cache[filename] = k
        return k

    def _global_trace(self, frame: Any, event: str, arg: Any) -> Any:
        th = self.cur
        if th is None or th.untraced:
            return None
        code = frame.f_code
        k = self.kind_cache.get(code.co_filename)
        if k is None:
            k = self._kind(code.co_filename)
        if k == 0:
            return None
        if self.use_hot and code.co_name in HOT_NAMES:
            return self._trace_hot
        return self._trace_own if k == 1 else self._trace_dep

    def _trace_own(self, frame: Any, event: str, arg: Any) -> Any:
        if event == "line":
            th = self.cur
            th.own += 1
            th.total += 1
            th.cd_all -= 1
            th.cd_own -= 1
            if th.cd_all <= 0 or th.cd_own <= 0:
                self._decide(th, "own" if th.cd_own <= 0 else "all")
        return self._trace_own

    def _trace_dep(self, frame: Any, event: str, arg: Any) -> Any:
        if event == "line":
            th = self.cur
            th.dep += 1
            th.total += 1
            th.cd_all -= 1
            th.cd_dep -= 1
            if th.cd_all <= 0 or th.cd_dep <= 0:
                self._decide(th, "dep" if th.cd_dep <= 0 else "all")
        return self._trace_dep

    def _trace_hot(self, frame: Any, event: str, arg: Any) -> Any:
        if event == "line":
            th = self.cur
            if frame.f_code.co_filename.startswith(self.roots_own):
                th.own += 1
            else:
                th.dep += 1
            th.total += 1
            th.hot_hits += 1
            th.cd_all -= 1
            th.cd_hot -= 1
            if th.cd_all <= 0 or th.cd_hot <= 0:
                self._decide(th, "hot" if th.cd_hot <= 0 else "all")
        return self._trace_hot

    # ------------------------------------------------------------ opcode-level pre-emption points
    def enable_opcodes(self, codes: List[Any], tool_id: int = 4) -> int:
        """Besides line events, every bytecode instruction of the given code
        objects becomes a step (an 'own' step) and hence a pre-emption point
        (sys.monitoring INSTRUCTION events, Python >= 3.12).  -> number of
        code objects instrumented (0 when unavailable)."""
        mon = getattr(sys, "monitoring", None)
        if mon is None:
            return 0
        try:
            mon.use_tool_id(tool_id, "verif-sim")
        except ValueError:
            pass
        mon.register_callback(tool_id, mon.events.INSTRUCTION, self._on_instruction)
        n = 0
        for c in codes:
            try:
                mon.set_local_events(tool_id, c, mon.events.INSTRUCTION)
                n += 1
            except Exception:
                pass
        self.opcodes = n
        return n

    def _on_instruction(self, code: Any, offset: int) -> None:
        th = self.cur
        if th is None or th.untraced:
            return
        th.own += 1
        th.focus += 1
        th.total += 1
        th.cd_all -= 1
        th.cd_own -= 1
        th.cd_focus -= 1
        if th.cd_all <= 0 or th.cd_own <= 0 or th.cd_focus <= 0:
            self._decide(th, "focus" if th.cd_focus <= 0 else ("own" if th.cd_own <= 0 else "all"))

    # ------------------------------------------------------------ switching
    def runnable(self) -> List[int]:
        return [t.idx for t in self.threads if t.state == "ready"]

    def _decide(self, th: SimThread, space: str) -> None:
        if th.thread is not None and th.thread.ident != _thread.get_ident():
            self.broken = f"decision for T{th.idx} taken on another OS thread: two threads ran at once"
        if th.total > self.step_cap:
            if self.on_abort:
                self.on_abort("stepcap")
            raise SystemExit("stepcap")
        target = self.policy.decide(self, th, space)
        if target != th.idx:
            self.voluntary.append([th.idx, th.total, target])
            if space == "hot":
                self.hot_switches += 1
            self._pass(th, self.threads[target])

    def _pass(self, th: SimThread, target: SimThread) -> None:
        if self.in_parse >= 2:
            self.overlap_seen = True
        self.cur = target
        target.baton.release()
        th.baton.acquire()
        # resumed: whoever released us has set self.cur = th

    def forced_switch(self, th: SimThread) -> None:
        """th cannot continue (finished or blocked): hand the baton on.
        Whether th parks afterwards is decided *before* the baton is released: once the target runs it may
        release the lock th waits for and flip th.state to 'ready' while th is still on its way to park
        (seen once under heavy machine load as two threads running at the same time)."""
        must_park = th.state == "blocked"
        if th.thread is not None and th.thread.ident != _thread.get_ident():
            self.broken = f"forced switch for T{th.idx} executed on another OS thread"
        r = self.runnable()
        if not r:
            if any(t.state == "blocked" for t in self.threads):
                self.deadlock = "deadlock: " + ", ".join(
                    f"T{t.idx} {t.state}" + (f" on {t.waiting_on!r}" if t.waiting_on is not None else "")
                    for t in self.threads)
            self.cur = None
            self.done.release()
            if must_park:
                th.baton.acquire()  # parked for good; the run is over (daemon thread)
            return
        target = self.policy.forced(self, r)
        self.forced.append(target)
        tt = self.threads[target]
        self.cur = tt
        tt.baton.release()
        if must_park:
            th.baton.acquire()

    # ------------------------------------------------------------ running
    def _body(self, th: SimThread) -> None:
        th.baton.acquire()
        sys.settrace(self._global_trace)
        try:
            th.result = th.fn(th)
        except BaseException as e:  # harness-level problem of the script itself
            th.error = e
        finally:
            sys.settrace(None)
            th.state = "done"
            self.forced_switch(th)

    def run(self, fns: List[Callable[[SimThread], Any]], watchdog_s: float = 600.0) -> None:
        self.threads = [SimThread(i, f) for i, f in enumerate(fns)]
        self.policy.init(self)
        for t in self.threads:
            t.thread = threading.Thread(target=self._body, args=(t,), name=f"sim-{t.idx}", daemon=True)
            t.thread.start()
        self.first_idx = self.policy.first(self)
        first = self.threads[self.first_idx]
        self.cur = first
        first.baton.release()
        if not self.done.acquire(timeout=watchdog_s):
            raise RuntimeError("scheduler watchdog: the baton holder made no progress "
                               "(blocked on something the simulator does not own?)")
        self.total_steps = sum(t.total for t in self.threads)

    def schedule_json(self) -> Dict[str, Any]:
        return {"first": self.first_idx, "voluntary": self.voluntary, "forced": self.forced}


# ---------------------------------------------------------------------- locks

_active: List[Optional[Scheduler]] = [None]


def set_active(s: Optional[Scheduler]) -> None:
    _active[0] = s


class SimRLock:
    """Re-entrant lock that blocks in the scheduler."""
    reentrant = True

    def __init__(self, label: str = "") -> None:
        self.owner: Any = None
        self.depth = 0
        self.label = label
        self.contended = 0
        self.expired = 0

    def __repr__(self) -> str:
        return f"<Sim{'R' if self.reentrant else ''}Lock {self.label}>"

    def _me(self) -> Any:
        s = _active[0]
        if s is not None and s.cur is not None:
            return s.cur
        return _thread.get_ident()

    def acquire(self, blocking: bool = True, timeout: float = -1) -> bool:
        me = self._me()
        while True:
            if self.owner is None:
                self.owner, self.depth = me, 1
                return True
            if self.owner is me and self.reentrant:
                self.depth += 1
                return True
            if not blocking:
                return False
            s = _active[0]
            if s is None or not isinstance(me, SimThread):
                raise RuntimeError(f"{self!r}: contended outside the simulator")
            self.contended += 1
            if timeout is not None and timeout >= 0 and self.contended % 2:
                # a bounded wait: the simulated clock belongs to the simulator, and the holder may be stalled for
                # longer than any finite timeout (fault: slow thread).  Every other contended bounded wait expires
                # at once (a pure function of the lock's history, so replays agree); the others wait as usual.
                self.expired += 1
                return False
            me.state = "blocked"
            me.waiting_on = self
            s.forced_switch(me)
            me.waiting_on = None
            # resumed by release(): contend again

    def release(self) -> None:
        if self.owner is None:
            raise RuntimeError("release of an unlocked lock")
        self.depth -= 1
        if self.depth == 0:
            self.owner = None
            s = _active[0]
            if s is not None:
                for t in s.threads:
                    if t.state == "blocked" and t.waiting_on is self:
                        t.state = "ready"

    def locked(self) -> bool:
        return self.owner is not None

    __enter__ = acquire

    def __exit__(self, *a: Any) -> None:
        self.release()

    def _is_owned(self) -> bool:
        return self.owner is self._me()


class SimLock(SimRLock):
    reentrant = False

    def release(self) -> None:
        self.depth = 1
        super().release()


_REAL_LOCK_T = type(_thread.allocate_lock())
_REAL_RLOCK_T = type(threading.RLock())


class _ThreadingProxy:
    """Stands in for the `threading` module inside modules of the code under
    test: Lock/RLock create simulator locks, everything else is delegated."""

    def __init__(self, registry: List[Any]) -> None:
        self._registry = registry

    def Lock(self) -> SimLock:
        l = SimLock("runtime")
        self._registry.append(l)
        return l

    def RLock(self) -> SimRLock:
        l = SimRLock("runtime")
        self._registry.append(l)
        return l

    def __getattr__(self, name: str) -> Any:
        return getattr(threading, name)


def install_sim_locks(prefixes: Tuple[str, ...]) -> List[Any]:
    """Replace every lock object reachable as a module attribute or class
    attribute of modules whose name starts with one of `prefixes`, and make
    locks they create later simulator locks too.  Returns the sim locks."""
    registry: List[Any] = []
    proxy = _ThreadingProxy(registry)

    def conv(v: Any, label: str) -> Any:
        if type(v) is _REAL_LOCK_T:
            l: Any = SimLock(label)
        elif type(v) is _REAL_RLOCK_T:
            l = SimRLock(label)
        else:
            return None
        registry.append(l)
        return l

    for mname, mod in list(sys.modules.items()):
        if mod is None or not mname.startswith(prefixes):
            continue
        for k, v in list(vars(mod).items()):
            l = conv(v, f"{mname}.{k}")
            if l is not None:
                setattr(mod, k, l)
            elif v is threading:
                setattr(mod, k, proxy)
            elif v is threading.Lock or v is _thread.allocate_lock:
                setattr(mod, k, proxy.Lock)
            elif v is threading.RLock:
                setattr(mod, k, proxy.RLock)
            elif isinstance(v, type) and getattr(v, "__module__", "") == mname:
                for ck, cv in list(vars(v).items()):
                    cl = conv(cv, f"{mname}.{v.__name__}.{ck}")
                    if cl is not None:
                        setattr(v, ck, cl)
    return registry
