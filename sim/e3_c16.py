"""E3 profile C16 - renderer dispatch follows the current owner; database-level
text is the join of element texts; rendering is pure.

Universe: a consistent schema inside db1 (realised through the constructors
or through PyDBML(text, sql_renderer=..., dbml_renderer=...)), empty db2/db3
with other renderer configurations, plus loose objects.  Operations: C09's
add / delete (hence move) and table-level column/index operations, plus
render probes on any element at any time, repeated and in random order.
"""
from __future__ import annotations

import random
from typing import Any, Dict, List, Optional, Tuple

from . import e3_c09 as C09
from . import e3_c10 as C10
from .e3_engine import Env, Violation, world_from_json, world_to_json, tag_text, TAGGED_TYPES_FULL, TAGGED_TYPES_PARTIAL, ERR_TYPES, construct_violation
from .refmodel import World, expected_dump, real_dump, diff_dumps

PROP = "C16"
RUNS = {"quick": 6000, "thorough": 120000}
WALL_CAP = {"quick": 300.0, "thorough": 3000.0}
PRUNE = False

TOP = ("table", "enum", "ref", "group", "sticky", "project")
HAS_SQL = ("table", "column", "enum", "ref", "index")
TYPE_OF = {"table": "Table", "column": "Column", "enum": "Enum", "ref": "Reference", "group": "TableGroup",
           "sticky": "StickyNote", "project": "Project", "index": "Index"}


class C16Engine(C09.C09Engine):
    def __init__(self, env: Env, world: World, via: str) -> None:
        pre = None
        self.precondition_failed = False
        db1 = world.handles("db")[0]
        if world.m[db1].get("blank_parse"):
            from pydbml import PyDBML
            d0 = world.m[db1]
            rk0 = {"sql_renderer": env.renderers["sql"][d0["sqlr"]], "dbml_renderer": env.renderers["dbml"][d0["dbmlr"]]}
            try:
                pre = {db1: PyDBML(d0["blank_parse"], allow_properties=d0["allow_properties"], **rk0)}
            except Exception:
                self.precondition_failed = True
        elif via == "parse":
            sub = World()
            d = world.m[db1]
            keep = {db1}
            for f in ("tables", "refs", "enums", "groups", "notes"):
                keep.update(d[f])
            if d["project"]:
                keep.add(d["project"])
            for t in d["tables"]:
                keep.update(world.m[t]["cols"])
                keep.update(world.m[t]["idxs"])
            sub.m = {h: world.m[h] for h in world.m if h in keep}
            rk = {"sql_renderer": env.renderers["sql"][d["sqlr"]], "dbml_renderer": env.renderers["dbml"][d["dbmlr"]]}
            pre = C10.realize_by_parse(env, sub, db1, rk, d.get("source_style", "str"))
            if pre is None:
                self.precondition_failed = True
        super().__init__(env, world, PROP, pre=pre)
        self.via = via
        self.version = 0
        self.memo: Dict[Tuple[str, str], Tuple[int, Any]] = {}
        self.last_raised: Optional[Tuple[str, str, str]] = None
        self.dead = False
        # the "late" renderer classes are process-wide: back to their initial registries
        self.late_types: Dict[str, List[str]] = {"sql": [], "dbml": []}
        for lang in ("sql", "dbml"):
            reg = self.env.renderers[lang]["late"].model_renderers
            for t in [t for t in reg if t.__name__ not in TAGGED_TYPES_PARTIAL]:
                del reg[t]
        self.reg0 = self.registries()
        self.reg0 = self.registries()

    # ------------------------------------------------------------ helpers
    def registries(self) -> Dict[str, List[str]]:
        out = {}
        for lang, d in self.env.renderers.items():
            for fl, cls in d.items():
                out[f"{lang}:{fl}"] = sorted(t.__name__ for t in cls.model_renderers)
        return out

    def owner_db(self, h: str) -> Optional[str]:
        d = self.w.m[h]
        if d["kind"] == "column":
            return self.w.m[d["table"]]["db"] if d["table"] else None
        if d["kind"] == "index":
            return None
        return d.get("db")

    def expected_text(self, h: str, lang: str) -> Any:
        """What the *current owner's* renderer class produces for the element."""
        kind = self.kinds[h]
        o = self.real[h]
        if kind == "db":
            fl = self.w.m[h]["sqlr" if lang == "sql" else "dbmlr"]
            cls = self.env.renderers[lang][fl]
            if fl in ("default", "sub"):
                return None   # render_db is the library's own: decided by consume(), not by calling the same code
            return self._call(lambda: cls.render_db(o))
        owner = self.owner_db(h)
        fl = "default" if owner is None else self.w.m[owner]["sqlr" if lang == "sql" else "dbmlr"]
        if fl == "default":
            cls = self.env.renderers[lang]["default"]
            return self._call(lambda: cls.render(o))
        if fl == "err" and TYPE_OF[kind] in ERR_TYPES:
            return ["exc", "AttributeError"]
        types = TAGGED_TYPES_FULL if fl in ("tag", "nodb", "err") else TAGGED_TYPES_PARTIAL
        if fl == "late":
            types = TAGGED_TYPES_PARTIAL + tuple(self.late_types[lang])
        if fl == "sub" and lang == "sql":
            # the default SQL renderer checks required attributes before dispatching, subclasses inherit that
            try:
                o.check_attributes_for_sql()
            except Exception as ex:
                return ["exc", type(ex).__name__]
        if TYPE_OF[kind] in types:
            return tag_text(f"{fl}{lang}", o)
        return ""

    @staticmethod
    def _call(f: Any) -> Any:
        try:
            return f()
        except Exception as ex:
            return ["exc", type(ex).__name__]

    def probe(self, h: str, lang: str, ctx: Any) -> None:
        """Evaluate one rendering with all render oracles around it."""
        kind = self.kinds[h]
        if lang == "sql" and kind not in HAS_SQL + ("db",):
            return
        before = real_dump(self.real, self.kinds)
        eq_before = self.eq_matrix()
        got = self._call(lambda: getattr(self.real[h], lang))
        after = real_dump(self.real, self.kinds)
        eq_after = self.eq_matrix()
        self.count(f"probe:render-{kind}.{lang}")
        if isinstance(got, list) and kind in ("table", "db"):
            self.last_raised = (h, lang, got[1])
            self.count(f"probe:render-raised-{kind}.{lang}:{got[1]}")
        if eq_before != eq_after:
            changed = sorted(set(eq_before) ^ set(eq_after))
            raise Violation(PROP, "purity", {"after": ctx, "render": [h, lang], "pairs_whose_equality_changed": changed[:6]},
                            f"purity:equality-changed-by:{kind}.{lang}")
        if before != after:
            raise Violation(PROP, "purity", {"after": ctx, "render": [h, lang], "diff": diff_dumps(before, after)[:8]},
                            f"purity:model-changed-by:{kind}.{lang}")
        reg = self.registries()
        if reg != self.reg0:
            raise Violation(PROP, "purity", {"after": ctx, "render": [h, lang], "registries": reg},
                            f"purity:registry-changed-by:{kind}.{lang}")
        want = self.expected_text(h, lang) if kind != "index" else None
        if kind != "index" and want is not None:
            if got != want:
                owner = self.owner_db(h) if kind != "db" else h
                fl = "detached" if owner is None else self.w.m[owner]["sqlr" if lang == "sql" else "dbmlr"]
                raise Violation(PROP, "dispatch", {"after": ctx, "render": [h, lang], "owner": owner, "renderer": fl,
                                                   "got": got if isinstance(got, list) else got[:300],
                                                   "want": want if isinstance(want, list) else want[:300]},
                                f"dispatch:{kind}.{lang}:{fl}")
            self.count(f"ok:dispatch-{'detached' if kind != 'db' and self.owner_db(h) is None else 'attached'}")
        key = (h, lang)
        if key in self.memo and self.memo[key][0] == self.version and self.memo[key][1] != got:
            raise Violation(PROP, "purity", {"after": ctx, "render": [h, lang], "first": self.memo[key][1], "now": got},
                            f"purity:repeated-render-differs:{kind}.{lang}")
        if key in self.memo and self.memo[key][0] == self.version:
            self.count("probe:repeated-render-identical")
        self.memo[key] = (self.version, got)

    def eq_matrix(self) -> List[Tuple[str, str]]:
        """Observable equality relation among references, tables, enums and indexes (a == b as the library
        defines it): rendering must not change it."""
        out = []
        for kind in ("ref", "table", "enum", "index"):
            hs = [h for h in self.w.m if self.kinds[h] == kind]
            for i, a in enumerate(hs):
                for b in hs[i + 1:]:
                    try:
                        if self.real[a] == self.real[b]:
                            out.append((a, b))
                    except Exception:
                        out.append((a, b + "!"))
        return out

    def consume(self, db: str, ctx: Any) -> None:
        """(b) with the default renderers every top-level element's text
        appears verbatim, exactly once, in the database-level text."""
        m = self.w.m
        d = m[db]
        for lang in ("sql", "dbml"):
            fl = d["sqlr" if lang == "sql" else "dbmlr"]
            if fl not in ("default", "sub"):
                continue
            text = self._call(lambda: getattr(self.real[db], lang))
            if isinstance(text, list):
                self.count("db-render-raised")
                continue
            elems = list(d["enums"]) + list(d["tables"]) + [r for r in d["refs"] if not (m[r]["inline"] and m[r]["type"] != "<>")]
            if lang == "dbml":
                elems += list(d["groups"]) + list(d["notes"]) + ([d["project"]] if d["project"] else [])
            parts = []
            for h in elems:
                t = self._call(lambda: getattr(self.real[h], lang))
                if isinstance(t, list):
                    parts = None
                    break
                parts.append((h, t))
            if parts is None:
                self.count("db-render-raised")
                continue
            rest = text
            for h, t in sorted(parts, key=lambda x: -len(x[1])):
                if t == "" and fl == "sub":
                    continue   # element type without a handler: renders as the empty string
                if t == "":
                    raise Violation(PROP, "join", {"after": ctx, "db": db, "lang": lang, "element": h,
                                                   "what": "element renders as empty text under the default renderer"},
                                    f"join:empty-element-text:{self.kinds[h]}.{lang}")
                if t not in rest:
                    raise Violation(PROP, "join", {"after": ctx, "db": db, "lang": lang, "element": h,
                                                   "element_text": t[:300], "what": "not found verbatim in database text"},
                                    f"join:element-missing:{self.kinds[h]}.{lang}")
                rest = rest.replace(t, "", 1)
            if rest.strip() != "":
                raise Violation(PROP, "join", {"after": ctx, "db": db, "lang": lang, "left_over": rest[:300]},
                                f"join:unaccounted-text:{lang}")
            self.count(f"probe:join-consumed.{lang}")

    # ------------------------------------------------------------ step
    def orphans(self, ctx: Any) -> None:
        """The caller keeps elements and lets go of the Database objects (`t = PyDBML(src, sql_renderer=R)['t']`).
        An element stays attached - its database is whatever `element.database` says, not what the caller still
        holds - so every text must stay what it was.  Last operation of a run: the engine is unusable afterwards."""
        import gc
        import weakref
        hs = [h for h in self.w.m if self.kinds[h] in TOP + ("column",)]
        before = {(h, lang): self._call(lambda: getattr(self.real[h], lang))
                  for h in hs for lang in ("sql", "dbml") if not (lang == "sql" and self.kinds[h] not in HAS_SQL)}
        refs = {}
        for dbh in self.w.handles("db"):
            refs[dbh] = weakref.ref(self.real[dbh])
            self.real[dbh] = None
        self.dead = True
        gc.collect()
        for dbh, r in refs.items():
            holds = any(self.w.m[dbh][f] for f in ("tables", "refs", "enums", "groups", "notes")) or self.w.m[dbh]["project"]
            self.count("fault:database-reference-dropped" + (":kept-alive-by-elements" if r() is not None else ":reclaimed"))
            if holds and r() is None:
                self.count("probe:database-reclaimed-although-it-has-elements")
        for (h, lang), t0 in before.items():
            t1 = self._call(lambda: getattr(self.real[h], lang))
            if t1 != t0:
                kind = self.kinds[h]
                raise Violation(PROP, "dispatch", {"after": ctx, "render": [h, lang], "owner": self.owner_db(h),
                                                   "with_database_held": t0 if isinstance(t0, list) else t0[:300],
                                                   "after_caller_dropped_it": t1 if isinstance(t1, list) else t1[:300]},
                                f"dispatch:after-database-reference-dropped:{kind}.{lang}")
        self.count("probe:orphan-texts-unchanged", len(before))

    def step(self, op: List[Any], idx: int) -> str:
        ctx = {"index": idx, "op": op}
        if self.dead:
            return "veto"
        if op[0] == "orphans":
            self.orphans(ctx)
            self.trace.append("orphans:accepted")
            return "accepted"
        if op[0] == "late_register":
            # a handler is registered on a renderer class through the public decorator after texts were produced
            _, lang, tn = op
            if tn in TAGGED_TYPES_PARTIAL or tn in self.late_types[lang] or tn not in TAGGED_TYPES_FULL:
                return "veto"
            klass = self.env.renderers[lang]["late"]

            def handler(model: Any, _fl: str = f"late{lang}") -> str:
                return tag_text(_fl, model)
            klass.renderer_for(getattr(self.env.C, tn))(handler)
            self.late_types[lang].append(tn)
            self.reg0 = self.registries()
            self.version += 1
            self.count("fault:handler-registered-after-renderings")
            self.trace.append("late_register:accepted")
            return "accepted"
        if op[0] == "render":
            _, h, lang = op
            if h not in self.w.m:
                return "veto"
            self.probe(h, lang, ctx)
            self.trace.append("render:accepted")
            return "accepted"
        if op[0] == "rename_col":
            # plain attribute assignment: two columns of one table may end up with the same name
            _, c, name = op
            if c not in self.w.m or self.kinds[c] != "column":
                return "veto"
            self.w.m[c]["name"] = name
            self.real[c].name = name
            self.version += 1
            self.check_state(ctx)
            self.check_lookups(ctx)
            self.trace.append("rename_col:accepted")
            return "accepted"
        if op[0] == "flip_pk":
            c = op[1]
            if c not in self.w.m or self.kinds[c] != "column":
                return "veto"
            self.w.m[c]["pk"] = not self.w.m[c]["pk"]
            self.real[c].pk = self.w.m[c]["pk"]
            self.version += 1
            self.check_state(ctx)
            self.trace.append("flip_pk:accepted")
            return "accepted"
        if op[0] == "render_all":
            hs = [h for h in self.w.m if self.kinds[h] in TOP + ("column", "db", "index")]
            order = random.Random(op[1]).sample(hs, len(hs))
            for h in order:
                for lang in (("sql", "dbml") if op[1] % 2 else ("dbml", "sql")):
                    self.probe(h, lang, ctx)
            for db in self.w.handles("db"):
                self.consume(db, ctx)
            self.trace.append("render_all:accepted")
            return "accepted"
        st = super().step(op, idx)
        if st == "accepted":
            self.version += 1
        return st


# ---------------------------------------------------------------------- generation

CONFIGS = [("default", "default"), ("tag", "tag"), ("partial", "partial"), ("default", "tag"), ("partial", "default"),
           ("tag", "partial"), ("sub", "sub"), ("sub", "default"), ("default", "sub"), ("nodb", "nodb"), ("nodb", "tag"),
           ("default", "nodb"), ("err", "err"), ("err", "default"), ("tag", "err"), ("late", "late"), ("late", "default"),
           ("default", "late"), ("late", "late")]


def gen_world(rng: random.Random, via: str) -> World:
    w = C10.gen_world(rng, via == "parse")
    db1 = w.handles("db")[0]
    cfgs = rng.sample(CONFIGS, 3)
    if rng.random() < 0.5:
        cfgs[0] = ("default", "default")
    w.m[db1]["sqlr"], w.m[db1]["dbmlr"] = cfgs[0]
    w.m[db1]["source_style"] = rng.choice(["str", "str", "path", "file"])
    if rng.random() < 0.12:
        # db1 is what the parser returns for a document without any element; its former content becomes loose
        d1 = w.m[db1]
        for f in ("tables", "refs", "enums", "groups", "notes"):
            for h in d1[f]:
                w.m[h]["db"] = None
            d1[f] = []
        if d1["project"]:
            w.m[d1["project"]]["db"] = None
            d1["project"] = None
        d1["blank_parse"] = rng.choice(["", "\n\n", "  \n\t\n", "// only a comment\n"])
    for c in cfgs[1:]:
        h = w.db(sqlr=c[0], dbmlr=c[1])
        w.m[h]["positional"] = rng.random() < 0.5
    # loose objects that can be added / moved
    tables = []
    for k in range(rng.randint(1, 3)):
        t = w.table(rng.choice(["la", "lb", "users"]), schema=rng.choice(["public", "s1"]),
                    alias=rng.choice([None, None, "lal"]), note=rng.choice(["", "ln"]))
        for cn in rng.sample(["id", "v", "w"], rng.randint(1, 3)):
            w.attach_col(t, w.column(cn, rng.choice(["int", "text"]), pk=(cn == "id")))
        tables.append(t)
    for _ in range(rng.randint(0, 2)):
        w.column(rng.choice(["z", "id"]), "int")
    for _ in range(rng.randint(1, 3)):
        t1, t2 = rng.choice(tables), rng.choice(tables + w.m[db1]["tables"])
        w.ref(rng.choice([">", "<", "-", "<>"]), [rng.choice(w.m[t1]["cols"])], [rng.choice(w.m[t2]["cols"])],
              inline=rng.random() < 0.3, name=rng.choice([None, "lfk"]))
    # equal-content twins of contained references (a duplicate must be rejected before and after rendering)
    for r in list(w.m[db1]["refs"]):
        if rng.random() < 0.6:
            d = w.m[r]
            w.ref(d["type"], d["col1"], d["col2"], name=d["name"], comment=d["comment"], on_update=d["on_update"],
                  on_delete=d["on_delete"], inline=d["inline"] if rng.random() < 0.7 else not d["inline"])
    w.enum(rng.choice(["le", "en0"]), ["p", "q"], schema=rng.choice(["public", "s1"]))
    w.group(rng.choice(["lg", "g0"]), rng.sample(tables, 1), note=rng.choice([None, "gn"]))
    w.sticky("lsn", rng.choice(["text", ""]))
    w.project("lp", items={"k": "v"}, note="pn")
    for t in tables[:1]:
        own = w.m[t]["cols"]
        w.index([["col", rng.choice(own)]], name=rng.choice([None, "lix"]))
    return w


OPW = {"late_register": 3, "render": 30, "render_all": 6, "rename_col": 3, "flip_pk": 4, "add": 22, "delete": 16, "rename": 4, "delete_project": 1,
       "t_add_col": 4, "t_del_col": 4, "t_del_col_at": 2, "t_add_idx": 3, "t_del_idx": 2, "add_bad": 1, "delete_bad": 1}


def draw_op(rng: random.Random, eng: C16Engine, weights: Dict[str, float]) -> List[Any]:
    w = eng.w
    ks = list(weights)
    k = rng.choices(ks, [weights[x] for x in ks])[0]
    if k == "render":
        hs = [h for h in w.m if eng.kinds[h] in TOP + ("column", "db")]
        dbs = w.handles("db")
        h = rng.choice(dbs) if rng.random() < 0.3 else rng.choice(hs)
        return ["render", h, rng.choice(["sql", "dbml"])]
    if k == "render_all":
        return ["render_all", rng.randrange(1000)]
    if k == "late_register":
        return ["late_register", rng.choice(["sql", "dbml"]),
                rng.choice([t for t in TAGGED_TYPES_FULL if t not in TAGGED_TYPES_PARTIAL])]
    if k == "flip_pk":
        return ["flip_pk", rng.choice(w.handles("column"))]
    if k == "rename_col":
        cols = w.handles("column")
        c = rng.choice(cols)
        t = w.m[c]["table"]
        pool = [w.m[x]["name"] for x in w.m[t]["cols"]] if t and rng.random() < 0.7 else ["id", "v", "renamed"]
        return ["rename_col", c, rng.choice(pool)]
    if k in ("add", "delete") and rng.random() < 0.6:
        # moves: prefer objects currently contained somewhere / currently free
        dbs = w.handles("db")
        db = rng.choice(dbs)
        if k == "delete":
            contained = [h for h, d in w.m.items() if d.get("db") == db and d["kind"] != "db"]
            if contained:
                return ["delete", db, rng.choice(contained), rng.random() < 0.5]
        else:
            free = [h for h, d in w.m.items() if d["kind"] in TOP and d.get("db") is None]
            if free:
                return ["add", db, rng.choice(free), rng.random() < 0.5]
    if k == "t_del_col" and rng.random() < 0.4:
        # a column that a contained reference ends at: the reference then points at a detached column
        ends = [c for r, d in w.m.items() if d["kind"] == "ref" and d.get("db") for c in d["col1"] + d["col2"]
                if w.m[c].get("table")]
        if ends:
            c = rng.choice(ends)
            return ["t_del_col", w.m[c]["table"], c]
    sub = {x: y for x, y in C09.OPW.items() if x == k}
    op = C09.draw_op(rng, eng, sub or {"add": 1})
    if op[0] in ("add", "delete", "add_bad", "delete_bad", "delete_project") and rng.random() < 0.5:
        op[1] = rng.choice(w.handles("db"))
    return op


def chase_failure(rng: random.Random, eng: C16Engine, h: str, lang: str) -> List[List[Any]]:
    """A rendering of a table or database has just raised.  Whatever that attempt may have left behind must not
    show in later renderings: edit something the failed rendering was working on, then render one of the table's
    elements on its own, the table, and the element again (the last two at one model version)."""
    m = eng.w.m
    if eng.kinds[h] == "db":
        ts = [t for t in m[h]["tables"] if m[t]["cols"]]
        if not ts:
            return []
        # prefer a table one of whose references has lost an endpoint (what makes a database rendering raise)
        broken = [t for t in ts for r in m[h]["refs"]
                  if (set(m[r]["col1"]) | set(m[r]["col2"])) & set(m[t]["cols"])
                  and any(m[c].get("table") is None or m[m[c]["table"]].get("db") != h for c in m[r]["col1"] + m[r]["col2"])]
        t = rng.choice(broken) if broken and rng.random() < 0.8 else rng.choice(ts)
    else:
        t = h
    cols = list(m[t]["cols"])
    if not cols:
        return []
    db = m[t].get("db")
    touching = [r for r, d in m.items() if d["kind"] == "ref" and (set(d["col1"]) | set(d["col2"])) & set(cols)]
    edits: List[Tuple[List[Any], Optional[str]]] = []
    for r in touching:
        if m[r].get("db"):
            edits.append((["delete", m[r]["db"], r, rng.random() < 0.5], r))
        elif db:
            edits.append((["add", db, r, rng.random() < 0.5], r))
    if not edits or rng.random() < 0.2:
        edits = [(["flip_pk", rng.choice(cols)], None)]
    edit, r = rng.choice(edits)
    ends = [x for x in (m[r]["col1"] + m[r]["col2"]) if x in cols] if r else []
    c = rng.choice(ends) if ends and rng.random() < 0.75 else rng.choice(cols)
    lang2 = lang if rng.random() < 0.8 else rng.choice(["sql", "dbml"])
    return [edit, ["render", c, lang2], ["render", t, lang2], ["render", c, lang2],
            ["render", rng.choice(cols), lang2]]


def _initial(eng: C16Engine) -> Optional[str]:
    if eng.precondition_failed:
        return "parse-realisation-failed"
    exp = expected_dump(eng.w, eng.env.renderer_quals)
    got = real_dump(eng.real, eng.kinds)
    for dbh in eng.w.handles("db"):
        for f in ("sqlr", "dbmlr"):
            if exp[dbh][f] != got.get(dbh, {}).get(f):
                raise Violation(PROP, "dispatch", {"after": {"index": -1, "op": ["construct", eng.via]}, "db": dbh,
                                                   "configured": exp[dbh][f], "database_has": got.get(dbh, {}).get(f)},
                                f"dispatch:configured-renderer-not-stored:{f}:{eng.via}")
    if exp != got:
        # the realised objects are not what the model says.  Before discarding the run as a precondition
        # failure (emitter vs. parser, C01 territory) let the render oracles look at the initial state: an
        # element the database lists but that renders through other classes is this property's business
        eng.step(["render_all", 1], -1)
        return "initial-dump-mismatch: " + "; ".join(diff_dumps(exp, got)[:3])
    return None


def run_ops(env: Env, wcomp: Dict[str, Any], ops: List[List[Any]]) -> Dict[str, Any]:
    try:
        eng = C16Engine(env, world_from_json(wcomp["w"]), wcomp["via"])
    except Exception as ex:
        bad = construct_violation(PROP, ex, wcomp["via"])
        if bad is None:
            raise
        return bad
    res: Dict[str, Any] = {"violation": None}
    try:
        pre = _initial(eng)
    except Violation as v:
        res.update({"violation": {"property": v.prop, "oracle": v.oracle, "signature": v.signature, "detail": v.detail},
                    "counters": eng.counters, "trace": []})
        return res
    if pre:
        res.update({"precondition": pre, "counters": {"precondition-discarded": 1}, "trace": []})
        return res
    try:
        for idx, op in enumerate(ops):
            eng.step(op, idx)
        eng.step(["render_all", 1], len(ops))
    except Violation as v:
        res["violation"] = {"property": v.prop, "oracle": v.oracle, "signature": v.signature, "detail": v.detail}
    res["counters"] = eng.counters
    res["trace"] = eng.trace
    return res


def generate(env: Env, rseed: int, thorough: bool):
    from .core import stream
    g = stream(rseed, "workload")
    via = "parse" if g.random() < 0.4 else "api"
    world = gen_world(stream(rseed, "universe"), via)
    wj0 = world_to_json(world)
    try:
        eng = C16Engine(env, world, via)
    except Exception as ex:
        bad = construct_violation(PROP, ex, via)
        if bad is None:
            raise
        return {"w": wj0, "via": via}, [], bad
    wj = world_to_json(eng.w)
    res: Dict[str, Any] = {"violation": None}
    try:
        pre = _initial(eng)
    except Violation as v:
        res.update({"violation": {"property": v.prop, "oracle": v.oracle, "signature": v.signature, "detail": v.detail},
                    "counters": eng.counters, "trace": []})
        return {"w": wj, "via": via}, [], res
    if pre:
        res.update({"precondition": pre, "trace": [],
                    "counters": {"precondition-discarded": 1, "precondition:" + pre.split(":")[0]: 1}})
        return {"w": wj, "via": via}, [], res
    nops = g.choice([3, 6, 10, 16, 25, 40])
    weights = {k: v * g.choice([0.3, 1, 1, 2, 3]) for k, v in OPW.items()}
    ops: List[List[Any]] = []
    op: List[Any] = []
    final_probe = False
    try:
        tries = 0
        pending: List[List[Any]] = []
        while len(ops) < nops and tries < nops * 6:
            tries += 1
            op = pending.pop(0) if pending else draw_op(g, eng, weights)
            eng.last_raised = None
            st = eng.step(op, len(ops))
            if st != "veto":
                ops.append(op)
            if eng.last_raised and not pending and g.random() < (0.15 if eng.last_raised[2] == "UnknownDatabaseError" else 0.8):
                pending = chase_failure(g, eng, *eng.last_raised[:2])
        if g.random() < 0.25:
            op = ["orphans"]
            eng.step(op, len(ops))
            ops.append(op)
        final_probe = True
        eng.step(["render_all", 1], len(ops))   # run_ops() appends the same final probe
    except Violation as v:
        if not final_probe:
            ops.append(op)
        res["violation"] = {"property": v.prop, "oracle": v.oracle, "signature": v.signature, "detail": v.detail}
    eng.count("via:" + via)
    res["counters"] = eng.counters
    res["trace"] = eng.trace
    return {"w": wj, "via": via}, ops, res


def nontrivial(res: Dict[str, Any]) -> bool:
    tr = res.get("trace", [])
    return any(t.startswith("render") for t in tr) and any(t.endswith(":accepted") and not t.startswith("render") for t in tr)


def coverage(agg: Any, tier: str) -> Dict[str, Any]:
    c = agg.counters
    disc = c.get("precondition-discarded", 0)
    return {
        "rule": "one case = 3 databases with drawn renderer configurations (default / full custom / partial custom, per "
                "language), db1 holding a consistent schema realised through the constructors or through "
                "PyDBML(text, sql_renderer=..., dbml_renderer=...), loose objects, and a seeded history of <= 40 "
                "add/delete/move/column/index operations interleaved with render probes in random order; every probe "
                "checks dispatch against the current owner's renderer class, model + registry purity and repeatability; "
                "default-renderer databases are checked by consumption (each element text verbatim exactly once). "
                "non-trivial = >= 1 accepted container operation and >= 1 render probe; distinct = (trace, ops) digest",
        "precondition_discarded": disc,
        "realised_via": {k[4:]: v for k, v in c.items() if k.startswith("via:")},
        "components": {"real": ["Database, model classes, BaseRenderer dispatch, both default renderers, parser "
                                "(parse-realised runs)"],
                       "stub": ["custom renderer classes (harness-side BaseRenderer subclasses with own registries)"]},
        "_level": "exploration",
        "_assumptions": ["dispatch of notes, indexes and enum items is not probed (the statement names top-level elements "
                         "and columns); they take part in the purity oracle only",
                         "the consumption oracle is skipped (and counted) in states whose database-level rendering raises"],
        "_exit2": ("more than 1% of the runs were discarded by the step-0 precondition" if agg.runs and disc > 0.01 * agg.runs + 2 else None),
    }
