"""E3 profile C10 - renderings always reflect the current model after edits.

A run draws a consistent plain-data schema, realises it either through the
public constructors or by emitting DBML and parsing it, then applies a seeded
history of in-place edits (and interleaved render evaluations) to the real
objects and to the plain data alike.  Oracle: a *fresh* Database built from
the plain data through the public constructors - new objects, never rendered
before - must render byte-identically (.sql/.dbml of the database and of every
element).  No rejected operations: this is the fault-free configuration of E3.
"""
from __future__ import annotations

import random
from typing import Any, Dict, List, Optional, Tuple

from .e3_engine import Env, Violation, world_from_json, world_to_json
from .refmodel import World, realize, expected_dump, real_dump, diff_dumps

PROP = "C10"
RUNS = {"quick": 12000, "thorough": 150000}
WALL_CAP = {"quick": 300.0, "thorough": 3000.0}

NAME_POOL = ["users", "orders", "items", "t_x", "acc", "posts", "m2m", "zeta", "table", "ref", "note"]
COL_POOL = ["id", "name", "val", "ref_id", "status", "created_at", "k", "x1", "indexes", "enum"]
TYPES = ["int", "varchar", "text", "varchar(255)", "timestamp", "double precision", "decimal(10, 2)"]
SCHEMAS = ["public", "public", "s1", "s2"]
TEXTS = ["plain", "it's", "two words", "", "multi\nline", "a 'q' b", "x", "trailing \nspace  ", "gap\n\nline"]
SIMPLE_TEXTS = ["plain", "two words", "x", "note one"]
DEFAULTS = [None, 0, 1, 2.5, True, False, "", "str", "NULL", ["expr", "now()"], "it's", "123", "-1", "1e3", "true",
            -7, 10 ** 12, "  ", "x" * 300]
ACTIONS = [None, "cascade", "set null", "no action", "restrict"]
ACTIONS_EDIT = ACTIONS + ["SET NULL", "Cascade", "no  action", ""]
REFTYPES = [">", "<", "-", "<>"]
IDXTYPES = [None, "btree", "hash"]
COLORS = [None, "#fff", "#3498db"]


# ---------------------------------------------------------------------- world generation

def gen_world(rng: random.Random, parse_friendly: bool) -> World:
    w = World()
    txt = SIMPLE_TEXTS if parse_friendly else TEXTS
    db = w.db(allow_properties=rng.random() < 0.5)
    d = w.m[db]
    d["share_notes"] = (not parse_friendly) and rng.random() < 0.3
    d["add_order"] = rng.randrange(10)
    enums = []
    for k in range(rng.randint(0, 2)):
        e = w.enum(f"en{k}", [dict(name=n, note=rng.choice(["", rng.choice(txt)]) if rng.random() < 0.3 else "",
                                   comment=rng.choice([None, "ic"]) if not parse_friendly else None)
                              for n in rng.sample(["a", "b", "c", "d d"], rng.randint(1, 3))],
                   schema=rng.choice(SCHEMAS), comment=None if parse_friendly else rng.choice([None, "ec"]))
        enums.append(e)
        d["enums"].append(e)
        w.m[e]["db"] = db
    tables = []
    used = set()
    exotic = [] if parse_friendly else ["with space", "ünï", "x-y", "Select"]
    for k in range(rng.randint(1, 4) if rng.random() < 0.93 else rng.randint(7, 11)):
        while True:
            nm, sc = rng.choice(NAME_POOL + exotic), rng.choice(SCHEMAS)
            if (nm, sc) not in used:
                used.add((nm, sc))
                break
        t = w.table(nm, schema=sc, alias=rng.choice([None, None, f"al{k}"]),
                    note=rng.choice(["", "", rng.choice(txt)]),
                    header_color=rng.choice(COLORS), comment=None if parse_friendly else rng.choice([None, "tc", "t\nc", "t\n\nc", "ends "]),
                    properties={"tp": "v"} if rng.random() < 0.3 and (d["allow_properties"] or not parse_friendly) else None,
                    ctor_cols=rng.random() < 0.5, abstract=(not parse_friendly) and rng.random() < 0.1)
        for cn in rng.sample(COL_POOL, rng.randint(1, 4)):
            ty: Any = rng.choice(TYPES[:5] if parse_friendly else TYPES)
            if enums and rng.random() < 0.25:
                ty = ["enum", rng.choice(enums)]
            dflt = rng.choice(DEFAULTS)
            if parse_friendly and (isinstance(dflt, bool) or dflt in ("", "NULL", 0, "123", "-1", "1e3", "true", "  ")
                                   or (isinstance(dflt, int) and dflt < 0)):
                dflt = None
            c = w.column(cn, ty, unique=rng.random() < 0.2, not_null=rng.random() < 0.2, pk=rng.random() < 0.25,
                         autoinc=rng.random() < 0.1, default=dflt,
                         note=rng.choice(["", "", rng.choice(txt)]),
                         comment=None if parse_friendly else rng.choice([None, None, "cc"]),
                         properties={"cp": "w"} if rng.random() < 0.2 and (d["allow_properties"] or not parse_friendly)
                         else None)
            w.attach_col(t, c)
        for _ in range(rng.randint(0, 2)):
            own = w.m[t]["cols"]
            if rng.random() < 0.75:
                subs = [["col", c] for c in rng.sample(own, rng.randint(1, min(2, len(own))))]
            elif rng.random() < 0.6 or parse_friendly:
                subs = [["expr", "id*2"]]
            else:
                subs = [["str", "raw"]]
            i = w.index(subs, name=rng.choice([None, "ix1"]), unique=rng.random() < 0.3, type=rng.choice(IDXTYPES),
                        pk=rng.random() < 0.15, note=rng.choice(["", "", rng.choice(SIMPLE_TEXTS)]),
                        comment=None if parse_friendly else rng.choice([None, "ixc"]))
            w.attach_idx(t, i)
        tables.append(t)
        d["tables"].append(t)
        w.m[t]["db"] = db
    for _ in range(rng.randint(0, 4)):
        t1, t2 = rng.choice(tables), rng.choice(tables)
        c1, c2 = w.m[t1]["cols"], w.m[t2]["cols"]
        n = 2 if (len(c1) > 1 and len(c2) > 1 and rng.random() < 0.2) else 1
        spec = dict(type=rng.choice(REFTYPES), col1=rng.sample(c1, n), col2=rng.sample(c2, n),
                    name=rng.choice([None, None, "fk1"]), on_update=rng.choice(ACTIONS), on_delete=rng.choice(ACTIONS),
                    inline=(n == 1 and rng.random() < 0.4), comment=None if parse_friendly else rng.choice([None, "rc"]))
        if parse_friendly and spec["type"] == "<>":
            spec["inline"] = False
        if parse_friendly and spec["inline"]:
            spec["name"] = spec["on_update"] = spec["on_delete"] = None  # inline refs carry no settings in DBML
        r = w.ref(**spec)
        if ref_clash(w, db, r):
            del w.m[r]
            continue
        d["refs"].append(r)
        w.m[r]["db"] = db
    if not parse_friendly and len(tables) > 1 and rng.random() < 0.2:
        # a composite reference built from the tables' own column lists (Reference(t, a.columns, b.columns))
        ta, tb = rng.sample(tables, 2)
        ca, cb = w.m[ta]["cols"], w.m[tb]["cols"]
        if len(ca) == len(cb) and 1 <= len(ca) <= 3:
            r = w.ref(rng.choice([">", "<", "-"]), list(ca), list(cb), name=rng.choice([None, "fk_all"]))
            if ref_clash(w, db, r):
                del w.m[r]
            else:
                w.m[r]["alias_table_lists"] = True
                d["refs"].append(r)
                w.m[r]["db"] = db
    for k in range(rng.randint(0, 2)):
        g = w.group(f"g{k}", rng.sample(tables, rng.randint(1, len(tables))),
                    comment=None if parse_friendly else rng.choice([None, "gc"]),
                    note=rng.choice([None, rng.choice(SIMPLE_TEXTS)]), color=rng.choice(COLORS))
        d["groups"].append(g)
        w.m[g]["db"] = db
    for k in range(rng.randint(0, 2)):
        n = w.sticky(f"sn{k}", rng.choice(txt) or "t")
        d["notes"].append(n)
        w.m[n]["db"] = db
    if rng.random() < 0.5:
        p = w.project("proj", items={"author": "me"} if rng.random() < 0.6 else None,
                      note=rng.choice(["", rng.choice(SIMPLE_TEXTS)]), comment=None if parse_friendly else rng.choice([None, "pc"]))
        d["project"] = p
        w.m[p]["db"] = db
    return w


def ref_clash(w: World, db: str, r: str) -> bool:
    for x in w.m[db]["refs"]:
        if x != r and (w.ref_strict(x) == w.ref_strict(r) or w.ref_nominal(x) == w.ref_nominal(r)):
            return True
    return False


# ---------------------------------------------------------------------- canonical DBML emitter

def q(s: str) -> str:
    return '"' + s + '"'


def sq(s: str) -> str:
    return "'" + s.replace("\\", "\\\\").replace("'", "\\'") + "'"


def fullname(d: Dict[str, Any]) -> str:
    return (q(d["schema"]) + "." if d["schema"] != "public" else "") + q(d["name"])


def emit_dbml(w: World, db: str) -> str:
    m = w.m
    d = m[db]
    out: List[str] = []
    if d["project"]:
        p = m[d["project"]]
        lines = [f"  {k}: {sq(v)}" for k, v in p["items"].items()]
        if p["note"]:
            lines.append(f"  Note: {sq(p['note'])}")
        out.append(f"Project {q(p['name'])} {{\n" + "\n".join(lines) + "\n}")
    for e in d["enums"]:
        ed = m[e]
        lines = []
        for it in ed["items"]:
            l = "  " + q(it["name"])
            if it["note"]:
                l += f" [note: {sq(it['note'])}]"
            lines.append(l)
        out.append(f"Enum {fullname(ed)} {{\n" + "\n".join(lines) + "\n}")
    inline_by_col: Dict[str, List[str]] = {}
    for r in d["refs"]:
        rd = m[r]
        if rd["inline"] and rd["type"] != "<>":
            inline_by_col.setdefault(rd["col1"][0], []).append(r)
    for t in d["tables"]:
        td = m[t]
        hdr = f"Table {fullname(td)}"
        if td["alias"]:
            hdr += f" as {q(td['alias'])}"
        if td["header_color"]:
            hdr += f" [headercolor: {td['header_color']}]"
        lines = []
        for c in td["cols"]:
            cd = m[c]
            ty = cd["type"]
            if isinstance(ty, list):
                ed = m[ty[1]]
                tys = (ed["schema"] + "." if ed["schema"] != "public" else "") + ed["name"]
            else:
                tys = ty
            opts = []
            for r in inline_by_col.get(c, []):
                rd = m[r]
                t2 = m[m[rd["col2"][0]]["table"]]
                opts.append(f"ref: {rd['type']} {fullname(t2)}.{q(m[rd['col2'][0]]['name'])}")
            if cd["pk"]:
                opts.append("pk")
            if cd["autoinc"]:
                opts.append("increment")
            if cd["unique"]:
                opts.append("unique")
            if cd["not_null"]:
                opts.append("not null")
            dv = cd["default"]
            if dv is not None:
                if isinstance(dv, list):
                    opts.append(f"default: `{dv[1]}`")
                elif isinstance(dv, bool):
                    opts.append(f"default: {'true' if dv else 'false'}")
                elif isinstance(dv, (int, float)):
                    opts.append(f"default: {dv}")
                else:
                    opts.append(f"default: {sq(dv)}")
            if cd["note"]:
                opts.append(f"note: {sq(cd['note'])}")
            if m[db]["allow_properties"]:
                for k, v in cd["properties"].items():
                    opts.append(f"{k}: {sq(v)}")
            lines.append(f"  {q(cd['name'])} {tys}" + (" [" + ", ".join(opts) + "]" if opts else ""))
        if m[db]["allow_properties"]:
            for k, v in td["properties"].items():
                lines.append(f"  {k}: {sq(v)}")
        if td["note"]:
            lines.append(f"  Note: {sq(td['note'])}")
        if td["idxs"]:
            il = []
            for i in td["idxs"]:
                idd = m[i]
                subs = [m[s[1]]["name"] if s[0] == "col" else f"`{s[1]}`" for s in idd["subjects"]]
                s = subs[0] if len(subs) == 1 else "(" + ", ".join(subs) + ")"
                o = []
                if idd["name"]:
                    o.append(f"name: {sq(idd['name'])}")
                if idd["pk"]:
                    o.append("pk")
                if idd["unique"]:
                    o.append("unique")
                if idd["type"]:
                    o.append(f"type: {idd['type']}")
                if idd["note"]:
                    o.append(f"note: {sq(idd['note'])}")
                il.append("    " + s + (" [" + ", ".join(o) + "]" if o else ""))
            lines.append("  indexes {\n" + "\n".join(il) + "\n  }")
        out.append(hdr + " {\n" + "\n".join(lines) + "\n}")
    for r in d["refs"]:
        rd = m[r]
        if rd["inline"] and rd["type"] != "<>":
            continue

        def side(cols: List[str]) -> str:
            t = m[m[cols[0]]["table"]]
            if len(cols) == 1:
                return f"{fullname(t)}.{q(m[cols[0]]['name'])}"
            return f"{fullname(t)}.(" + ", ".join(q(m[c]["name"]) for c in cols) + ")"
        o = []
        if rd["on_update"]:
            o.append(f"update: {rd['on_update']}")
        if rd["on_delete"]:
            o.append(f"delete: {rd['on_delete']}")
        out.append("Ref" + (f" {rd['name']}" if rd["name"] else "") + f": {side(rd['col1'])} {rd['type']} {side(rd['col2'])}"
                   + (" [" + ", ".join(o) + "]" if o else ""))
    for g in d["groups"]:
        gd = m[g]
        o = []
        if gd["color"]:
            o.append(f"color: {gd['color']}")
        body = "\n".join("  " + fullname(m[t]) for t in gd["items"])
        if gd["note"]:
            body += f"\n  note: {sq(gd['note'])}"
        out.append(f"TableGroup {q(gd['name'])}" + (" [" + ", ".join(o) + "]" if o else "") + " {\n" + body + "\n}")
    for n in d["notes"]:
        nd = m[n]
        out.append(f"Note {nd['name']} {{\n  {sq(nd['text'])}\n}}")
    return "\n\n".join(out) + "\n"


def realize_by_parse(env: Env, w: World, db: str, renderers: Optional[Dict[str, Any]] = None,
                     source_style: str = "str") -> Optional[Dict[str, Any]]:
    """Parse the emitted document and map the parsed objects back to model
    handles by position (references by endpoints).  None = cannot map."""
    from pydbml import PyDBML
    text = emit_dbml(w, db)
    m = w.m
    d = m[db]
    try:
        if source_style == "str":
            pdb = PyDBML(text, allow_properties=d["allow_properties"], **(renderers or {}))
        else:
            # the same document handed over as a pathlib.Path or as an open text file
            import pathlib
            import tempfile
            tmp = tempfile.mkdtemp(prefix="verif-c16-")
            try:
                p = pathlib.Path(tmp) / "schema.dbml"
                p.write_text(text, encoding="utf8")
                if source_style == "path":
                    pdb = PyDBML(p, allow_properties=d["allow_properties"], **(renderers or {}))
                else:
                    with open(p, encoding="utf8") as f:
                        pdb = PyDBML(f, allow_properties=d["allow_properties"], **(renderers or {}))
            finally:
                import shutil
                shutil.rmtree(tmp, ignore_errors=True)
    except Exception:
        return None
    real: Dict[str, Any] = {db: pdb}
    try:
        if len(pdb.tables) != len(d["tables"]) or len(pdb.enums) != len(d["enums"]) or len(pdb.refs) != len(d["refs"]) \
                or len(pdb.table_groups) != len(d["groups"]) or len(pdb.sticky_notes) != len(d["notes"]) \
                or (pdb.project is None) != (d["project"] is None):
            return None
        for h, o in zip(d["enums"], pdb.enums):
            real[h] = o
        for h, o in zip(d["tables"], pdb.tables):
            real[h] = o
            if len(o.columns) != len(m[h]["cols"]) or len(o.indexes) != len(m[h]["idxs"]):
                return None
            for ch, co in zip(m[h]["cols"], o.columns):
                real[ch] = co
            for ih, io in zip(m[h]["idxs"], o.indexes):
                real[ih] = io
        ids = {id(o): h for h, o in real.items()}
        order = []
        for o in pdb.refs:
            key = ([ids.get(id(c)) for c in o.col1], [ids.get(id(c)) for c in o.col2], o.type, bool(o._inline),
                   o.name, o.on_update, o.on_delete)
            hit = [r for r in d["refs"] if (m[r]["col1"], m[r]["col2"], m[r]["type"], m[r]["inline"], m[r]["name"],
                                            m[r]["on_update"], m[r]["on_delete"]) == key and r not in order]
            if not hit:
                return None
            order.append(hit[0])
            real[hit[0]] = o
        d["refs"][:] = order
        for h, o in zip(d["groups"], pdb.table_groups):
            real[h] = o
        for h, o in zip(d["notes"], pdb.sticky_notes):
            real[h] = o
        if d["project"]:
            real[d["project"]] = pdb.project
    except Exception:
        return None
    if set(real) != set(m):
        return None
    return real


# ---------------------------------------------------------------------- engine

class Abandon(Exception):
    pass


class C10Engine:
    def __init__(self, env: Env, world: World, via: str) -> None:
        self.env = env
        self.w = world
        self.db = world.handles("db")[0]
        self.via = via
        self.counters: Dict[str, int] = {}
        self.trace: List[str] = []
        self.precondition_failed = False
        real = None
        world.share_notes = bool(world.m[self.db].get("share_notes"))
        if via == "parse":
            real = realize_by_parse(env, world, self.db)
            if real is None:
                self.precondition_failed = True
        if real is None:
            real = realize(world, env.C, env.renderers, via_add=True)
        self.real = real
        self.kinds = {h: d["kind"] for h, d in world.m.items()}
        self.note_groups: Dict[str, set] = {}
        self.once_shared: set = set()

    def count(self, k: str, n: int = 1) -> None:
        self.counters[k] = self.counters.get(k, 0) + n

    # ---- rendering of everything
    def render_all(self, objs: Dict[str, Any], db_first: bool = False) -> Dict[str, Any]:
        out: Dict[str, Any] = {}

        def r(key: str, o: Any, lang: str) -> None:
            try:
                out[f"{key}.{lang}"] = getattr(o, lang)
            except Exception as ex:
                out[f"{key}.{lang}"] = ["exc", type(ex).__name__]
        # elements first, the database last: an element-level rendering must not depend on a database-level
        # rendering having been evaluated (successfully) just before
        # (every other comparison evaluates the database first instead: the usual order of a caller)
        order = list(self.w.m)
        random.Random(getattr(self, "ncompare", 0) * 7919 + 1).shuffle(order)   # same order for both sides
        for h in sorted(order, key=lambda x: (self.kinds[x] == "db") != db_first):
            o = objs[h]
            k = self.kinds[h]
            for lang in ("sql", "dbml"):
                if lang == "sql" and k in ("group", "sticky", "project"):
                    continue
                r(h, o, lang)
                if k in ("table", "column", "index", "project"):
                    r(h + ".note", o.note, lang)
                if k == "enum":
                    for n, it in enumerate(o.items):
                        r(f"{h}[{n}]", it, lang)
                        r(f"{h}[{n}].note", it.note, lang)
        return out

    def compare(self, ctx: Any) -> None:
        self.w.share_notes = False
        saved_order = self.w.m[self.db].get("add_order", 0)
        self.w.m[self.db]["add_order"] = 0      # the fresh database is always built in the canonical order
        try:
            fresh = realize(self.w, self.env.C, self.env.renderers, via_add=True)
        finally:
            self.w.m[self.db]["add_order"] = saved_order
        self.ncompare = getattr(self, "ncompare", 0) + 1
        a = self.render_all(self.real, db_first=self.ncompare % 2 == 0)
        b = self.render_all(fresh, db_first=self.ncompare % 2 == 0)
        self.count("probe:compared-with-fresh-rebuild")
        for h, grp in self.note_groups.items():
            if len(grp) > 1:
                for lang in ("sql", "dbml"):
                    a.pop(f"{h}.note.{lang}", None)
                    b.pop(f"{h}.note.{lang}", None)
        if a != b:
            bad = [k for k in b if a.get(k) != b[k]]
            # the element-level rendering of a Note that is, or once was, the note of two elements is kept apart:
            # Note.parent is a single pointer (known finding, see known_findings.json); every other difference
            # takes precedence so that this one can never mask it
            shared_note_keys = [k for k in bad if ".note." in k and k.split(".")[0] in self.once_shared]
            other = [k for k in bad if k not in shared_note_keys]
            pick = other or shared_note_keys
            k0 = next((k for k in pick if not k.startswith(self.db + ".")), pick[0])
            kind = self.kinds[k0.split(".")[0].split("[")[0]]
            detail = {"after": ctx, "differs": bad[:8], "first": k0, "edited": a[k0], "fresh": b[k0]}
            if not other:
                sig = f"stale:{kind}.note.{k0.rsplit('.', 1)[1]}:once-shared-note-object"
            elif ".note." in k0:
                sig = f"stale:{kind}.note.{k0.rsplit('.', 1)[1]}"
            else:
                sig = f"stale:{kind}.{k0.rsplit('.', 1)[1]}"
            raise Violation(PROP, "stale-rendering", detail, sig)

    # ---- operations
    def veto(self, op: List[Any]) -> Optional[str]:
        w, m = self.w, self.w.m
        k = op[0]
        for a in op[1:2]:
            if isinstance(a, str) and a not in m:
                return "unknown handle"
        if k == "set":
            _, h, field, value = op
            d = m[h]
            kind = d["kind"]
            if field not in d:
                return "unknown field"
            if kind == "table" and field in ("name", "schema", "alias"):
                tmp = dict(d)
                tmp[field] = value
                keys = [f"{tmp['schema']}.{tmp['name']}"] + ([tmp["alias"]] if tmp["alias"] else [])
                have = w.db_keys(self.db, exclude=h)
                if any(x in have for x in keys):
                    return "table key clash"
                # renaming changes nominal identity of references: keep them unique
                old = d[field]
                d[field] = value
                clash = any(ref_clash(w, self.db, r) for r in m[self.db]["refs"])
                d[field] = old
                if clash:
                    return "reference clash"
            if kind == "column" and field == "name":
                t = d["table"]
                if t and any(m[c]["name"] == value for c in m[t]["cols"] if c != h):
                    return "column name clash"
            if kind == "column":
                old = d[field]
                d[field] = value
                clash = any(ref_clash(w, self.db, r) for r in m[self.db]["refs"])
                d[field] = old
                if clash:
                    return "reference clash"
            if kind == "column" and field == "type" and isinstance(value, list) and value[1] not in m[self.db]["enums"]:
                return "enum not in db"
            if kind == "enum" and field in ("name", "schema"):
                tmp = dict(d)
                tmp[field] = value
                if any((m[e]["name"], m[e]["schema"]) == (tmp["name"], tmp["schema"]) for e in m[self.db]["enums"] if e != h):
                    return "enum clash"
            if kind == "group" and field == "name" and any(m[g]["name"] == value for g in m[self.db]["groups"] if g != h):
                return "group clash"
            if kind == "ref":
                if field == "inline" and value and (len(d["col1"]) > 1 or len(d["col2"]) > 1):
                    return "composite inline"
                old = d[field]
                d[field] = value
                clash = ref_clash(w, self.db, h)
                d[field] = old
                if clash:
                    return "reference clash"
        elif k == "item":
            _, e, n, field, value = op
            if n >= len(m[e]["items"]):
                return "no such item"
        elif k == "new_column":
            _, t, spec = op
            if any(m[c]["name"] == spec["name"] for c in m[t]["cols"]):
                return "column name clash"
            if isinstance(spec["type"], list) and spec["type"][1] not in m[self.db]["enums"]:
                return "enum not in db"
        elif k == "new_index":
            _, t, spec = op
            for s in spec["subjects"]:
                if s[0] == "col" and (s[1] not in m or m[s[1]]["table"] != t):
                    return "foreign subject"
        elif k == "del_index":
            if op[2] >= len(m[op[1]]["idxs"]):
                return "no such index"
            i = m[op[1]]["idxs"][op[2]]
            if op[3] == "obj" and any(w.idx_content(x) == w.idx_content(i) for x in m[op[1]]["idxs"] if x != i):
                return "equal twin index"
        elif k == "rejected_add_index":
            _, t, i = op
            if i not in m or m[i]["table"] in (None, t) or not any(s[0] == "col" for s in m[i]["subjects"]):
                return "not a foreign index"
        elif k == "rejected_add_table":
            if op[1] not in m[self.db]["tables"]:
                return "not contained"
        elif k == "move_column":
            c, t2 = op[1], op[2]
            t1 = m[c]["table"]
            if t1 is None or t1 == t2 or len(m[t1]["cols"]) < 2 or m[t2]["db"] != self.db:
                return "cannot move"
            if any(m[x]["name"] == m[c]["name"] for x in m[t2]["cols"]):
                return "column name clash"
            for h, d in m.items():
                if d["kind"] == "index" and any(s[0] == "col" and s[1] == c for s in d["subjects"]):
                    return "column used by an index"
                if d["kind"] == "ref" and ((c in d["col1"] and len(d["col1"]) > 1) or (c in d["col2"] and len(d["col2"]) > 1)):
                    return "column used by a composite reference"
            w2 = w.clone()
            w2.m[t1]["cols"].remove(c)
            w2.m[t2]["cols"].append(c)
            w2.m[c]["table"] = t2
            if any(ref_clash(w2, self.db, r) for r in w2.m[self.db]["refs"]):
                return "reference clash"
        elif k == "glitch":
            if op[1] not in m or m[op[1]]["kind"] != "column":
                return "not a column"
        elif k == "share_note":
            a, b = op[1], op[2]
            if a not in m or b not in m or a == b or m[a]["kind"] != "column" or m[b]["kind"] != "column":
                return "needs two columns"
        elif k == "expr_text":
            h = op[1]
            if h not in m:
                return "unknown handle"
            if m[h]["kind"] == "column":
                if not isinstance(m[h]["default"], list):
                    return "no expression default"
            elif m[h]["kind"] == "index":
                if op[3] >= len(m[h]["subjects"]) or m[h]["subjects"][op[3]][0] != "expr":
                    return "no expression subject"
            else:
                return "wrong kind"
        elif k == "readd":
            h = op[1]
            if h not in m or m[h]["kind"] not in ("table", "ref") or m[h].get("db") is not None:
                return "not a deleted element"
            if m[h]["kind"] == "table":
                keys = w.keys_of(h)
                have = w.db_keys(self.db)
                if any(x in have for x in keys):
                    return "table key clash"
            else:
                cs = m[h]["col1"] + m[h]["col2"]
                if any(m[c]["table"] is None or m[m[c]["table"]]["db"] != self.db for c in cs):
                    return "endpoint not in db"
                m[self.db]["refs"].append(h)
                clash = ref_clash(w, self.db, h)
                m[self.db]["refs"].remove(h)
                if clash:
                    return "reference clash"
        elif k == "gitem_add":
            _, g, t = op
            if t not in m or m[t]["kind"] != "table" or m[t]["db"] != self.db or t in m[g]["items"]:
                return "group item"
        elif k == "gitem_del":
            if op[2] >= len(m[op[1]]["items"]):
                return "no such group item"
        elif k == "del_column":
            _, t, n, _how = op
            cols = m[t]["cols"]
            if n >= len(cols) or len(cols) < 2:
                return "no such column"
            c = cols[n]
            for h, d in m.items():
                if d["kind"] == "ref" and (c in d["col1"] or c in d["col2"]):
                    return "column used by a reference"
                if d["kind"] == "index" and any(s[0] == "col" and s[1] == c for s in d["subjects"]):
                    return "column used by an index"
            if op[3] == "obj" and any(w.col_content(x) == w.col_content(c) for x in cols if x != c):
                return "equal twin column"
        elif k == "del_item":
            if op[2] >= len(m[op[1]]["items"]) or len(m[op[1]]["items"]) < 2:
                return "no such item"
        elif k == "del_table":
            t = op[1]
            if t not in m[self.db]["tables"] or len(m[self.db]["tables"]) < 2:
                return "not contained"
            for h, d in m.items():
                if d["kind"] == "ref" and any(m[c]["table"] == t for c in d["col1"] + d["col2"]):
                    return "table used by a reference"
        elif k == "new_ref":
            spec = op[1]
            for c in spec["col1"] + spec["col2"]:
                if c not in m or m[c]["table"] is None or m[m[c]["table"]]["db"] != self.db:
                    return "endpoint not in db"
            if len({m[c]["table"] for c in spec["col1"]}) > 1 or len({m[c]["table"] for c in spec["col2"]}) > 1:
                return "mixed"
            r = w.ref(**spec)
            clash = ref_clash(w, self.db, r)
            del m[r]
            w._n["r"] -= 1
            if clash:
                return "reference clash"
        elif k == "del_ref":
            if op[1] not in m[self.db]["refs"]:
                return "not contained"
        elif k == "new_table":
            spec = op[1]
            keys = [f"{spec['schema']}.{spec['name']}"] + ([spec["alias"]] if spec.get("alias") else [])
            have = w.db_keys(self.db)
            if any(x in have for x in keys):
                return "table key clash"
        return None

    def apply(self, op: List[Any]) -> None:
        """Apply to the real objects and to the plain data alike."""
        w, m, real, C = self.w, self.w.m, self.real, self.env.C
        k = op[0]
        if k == "set":
            _, h, field, value = op
            kind = m[h]["kind"]
            m[h][field] = value
            o = real[h]
            rv = value
            if kind == "column" and field == "type" and isinstance(value, list):
                rv = real[value[1]]
            if kind == "column" and field == "default" and isinstance(value, list):
                rv = C.Expression(value[1])
            if kind == "group" and field == "note":
                rv = None if value is None else C.Note(value)
            setattr(o, field, rv)
        elif k == "note":
            _, h, text, via = op
            m[h]["note"] = text
            grp = self.note_groups.get(h)
            if via == "setter":
                real[h].note = C.Note(text)
                if grp:
                    grp.discard(h)
                    self.note_groups.pop(h, None)
            else:
                real[h].note.text = text
                for x in (grp or ()):     # the same Note object is the note of these elements too
                    m[x]["note"] = text
        elif k == "item":
            _, e, n, field, value = op
            m[e]["items"][n][field] = value
            it = real[e].items[n]
            if field == "note":
                it.note = C.Note(value)
            else:
                setattr(it, field, value)
        elif k == "add_item":
            m[op[1]]["items"].append(dict(name=op[2], note="", comment=None))
            real[op[1]].add_item(op[2])
        elif k == "pitem":
            _, p, key, value = op
            if value is None:
                m[p]["items"].pop(key, None)
                real[p].items.pop(key, None)
            else:
                m[p]["items"][key] = value
                real[p].items[key] = value
        elif k == "prop":
            _, h, key, value = op
            if value is None:
                m[h]["properties"].pop(key, None)
                real[h].properties.pop(key, None)
            else:
                m[h]["properties"][key] = value
                real[h].properties[key] = value
        elif k == "flip_props":
            m[self.db]["allow_properties"] = not m[self.db]["allow_properties"]
            real[self.db].allow_properties = m[self.db]["allow_properties"]
        elif k == "new_column":
            _, t, spec = op
            c = w.column(**spec)
            w.attach_col(t, c)
            self.kinds[c] = "column"
            ty = spec["type"]
            dv = spec.get("default")
            real[c] = C.Column(spec["name"], real[ty[1]] if isinstance(ty, list) else ty,
                               unique=spec.get("unique", False), not_null=spec.get("not_null", False),
                               pk=spec.get("pk", False), autoinc=spec.get("autoinc", False),
                               default=C.Expression(dv[1]) if isinstance(dv, list) else dv,
                               note=spec.get("note") or None, comment=spec.get("comment"))
            real[t].add_column(real[c])
        elif k == "new_index":
            _, t, spec = op
            i = w.index(**spec)
            w.attach_idx(t, i)
            self.kinds[i] = "index"
            subs = [real[s[1]] if s[0] == "col" else (C.Expression(s[1]) if s[0] == "expr" else s[1])
                    for s in spec["subjects"]]
            real[i] = C.Index(subs, name=spec.get("name"), unique=spec.get("unique", False), type=spec.get("type"),
                              pk=spec.get("pk", False), note=spec.get("note") or None, comment=spec.get("comment"))
            real[t].add_index(real[i])
        elif k == "del_index":
            _, t, n, _how = op
            i = m[t]["idxs"].pop(n)
            m[i]["table"] = None
            real[t].delete_index(real[i] if op[3] == "obj" else n)
        elif k in ("rejected_add_index", "rejected_add_table"):
            # an operation that has to be refused (index over foreign columns / second table with a used name):
            # whatever the error, the model and hence every rendering must stay as it was
            try:
                if k == "rejected_add_index":
                    real[op[1]].add_index(real[op[2]])
                elif len(op) > 2 and op[2] == "other-db":
                    # a contained table is offered to ANOTHER database that has to refuse it (name in use there)
                    td = m[op[1]]
                    other = C.Database()
                    other.add(C.Table(td["name"], schema=td["schema"], columns=[C.Column("theirs", "int")]))
                    real_t = real[op[1]]
                    other.add(real_t)
                else:
                    td = m[op[1]]
                    real[self.db].add(C.Table(td["name"], schema=td["schema"], columns=[C.Column("dup", "int")]))
            except Exception:
                self.count("fault:" + k)
            else:
                raise Abandon("operation that must be refused was accepted (C09's business): run abandoned")
        elif k == "move_column":
            _, c, t2 = op[:3]
            t1 = m[c]["table"]
            m[t1]["cols"].remove(c)
            m[t2]["cols"].append(c)
            m[c]["table"] = t2
            real[t1].delete_column(real[c])
            real[t2].add_column(real[c])
        elif k == "expr_text":
            # the Expression object itself is edited in place (expr.text = ...), not replaced
            _, h, text, pos = op
            if m[h]["kind"] == "column":
                m[h]["default"] = ["expr", text]
                real[h].default.text = text
            else:
                m[h]["subjects"][pos] = ["expr", text]
                real[h].subjects[pos].text = text
        elif k == "readd":
            h = op[1]
            lst = "tables" if m[h]["kind"] == "table" else "refs"
            m[self.db][lst].append(h)
            m[h]["db"] = self.db
            real[self.db].add(real[h])
        elif k == "share_note":
            # one Note object becomes the note of a second column as well (col_b.note = col_a.note)
            a, b = op[1], op[2]
            real[b].note = real[a].note
            m[b]["note"] = m[a]["note"]
            grp = self.note_groups.get(a) or {a}
            old = self.note_groups.get(b)
            if old:
                old.discard(b)
            grp.add(b)
            for x in grp:
                self.note_groups[x] = grp
                self.once_shared.add(x)
        elif k == "glitch":
            # a required attribute is missing for a moment, a database-level rendering is attempted (and
            # refused), the attribute is restored: the model is what it was
            o = real[op[1]]
            attr = op[2]
            old = getattr(o, attr)
            setattr(o, attr, None)
            try:
                for lang in ("sql", "dbml"):
                    try:
                        getattr(real[self.db], lang)
                    except Exception:
                        self.count("fault:glitch-render-refused")
            finally:
                setattr(o, attr, old)
        elif k == "gitem_add":
            m[op[1]]["items"].append(op[2])
            real[op[1]].items.append(real[op[2]])
        elif k == "gitem_del":
            del m[op[1]]["items"][op[2]]
            del real[op[1]].items[op[2]]
        elif k == "del_column":
            _, t, n, how = op
            c = m[t]["cols"].pop(n)
            m[c]["table"] = None
            real[t].delete_column(real[c] if how == "obj" else n)
        elif k == "del_item":
            del m[op[1]]["items"][op[2]]
            del real[op[1]].items[op[2]]
        elif k == "del_table":
            t = op[1]
            m[self.db]["tables"].remove(t)
            m[t]["db"] = None
            real[self.db].delete(real[t])
        elif k == "new_ref":
            spec = op[1]
            r = w.ref(**spec)
            self.kinds[r] = "ref"
            m[self.db]["refs"].append(r)
            m[r]["db"] = self.db
            c1 = [real[c] for c in spec["col1"]]
            c2 = [real[c] for c in spec["col2"]]
            real[r] = C.Reference(spec["type"], c1, c2, name=spec.get("name"), comment=spec.get("comment"),
                                  on_update=spec.get("on_update"), on_delete=spec.get("on_delete"),
                                  inline=spec.get("inline", False))
            real[self.db].add(real[r])
        elif k == "del_ref":
            r = op[1]
            m[self.db]["refs"].remove(r)
            m[r]["db"] = None
            real[self.db].delete(real[r])
        elif k == "new_table":
            spec = dict(op[1])
            cols = spec.pop("cols")
            t = w.table(**spec)
            self.kinds[t] = "table"
            real[t] = C.Table(spec["name"], schema=spec["schema"], alias=spec.get("alias"), note=spec.get("note") or None)
            for cs in cols:
                c = w.column(**cs)
                w.attach_col(t, c)
                self.kinds[c] = "column"
                real[c] = C.Column(cs["name"], cs["type"], pk=cs.get("pk", False))
                real[t].add_column(real[c])
            m[self.db]["tables"].append(t)
            m[t]["db"] = self.db
            real[self.db].add(real[t])
        elif k == "render":
            _, h, lang = op
            try:
                getattr(real[h], lang)
            except Exception:
                self.count("render-raised")
        elif k == "render_all":
            self.render_all(real)
        else:
            raise ValueError(op)

    def step(self, op: List[Any], idx: int, check: bool) -> str:
        v = self.veto(op)
        if v:
            self.count("veto:" + v)
            return "veto"
        self.apply(op)
        label = op[0] + (f"-{self.kinds.get(op[1], '?')}.{op[2]}" if op[0] == "set" else "")
        self.count("ok:" + label)
        self.trace.append(label + ":accepted")
        if check:
            self.compare({"index": idx, "op": op})
        return "accepted"


# ---------------------------------------------------------------------- op generator

def draw_op(rng: random.Random, eng: C10Engine) -> List[Any]:
    w, m = eng.w, eng.w.m
    db = eng.db
    d = m[db]
    tables = d["tables"]
    r = rng.random()
    allh = [h for h in m if m[h]["kind"] != "db"]
    if r < 0.12:
        return ["render", rng.choice(allh + [db, db, db]), rng.choice(["sql", "dbml"])]
    if r < 0.16:
        return ["render_all"]
    if r < 0.40:  # table / column renames and settings
        if rng.random() < 0.4:
            t = rng.choice(tables)
            f = rng.choice(["name", "name", "schema", "alias", "header_color", "comment", "abstract"])
            if f == "abstract":
                return ["set", t, "abstract", not m[t]["abstract"]]
            v = {"name": rng.choice(NAME_POOL + ["renamed"]), "schema": rng.choice(SCHEMAS + ["s9"]),
                 "alias": rng.choice([None, "al9", "zz", ""]), "header_color": rng.choice(COLORS),
                 "comment": rng.choice([None, "new c", "a\nb", ""])}[f]
            return ["set", t, f, v]
        cols = [c for t in tables for c in m[t]["cols"]]
        c = rng.choice(cols)
        f = rng.choice(["name", "name", "type", "pk", "unique", "not_null", "autoinc", "default", "comment"])
        if f == "name":
            v: Any = rng.choice(COL_POOL + ["col_new"])
        elif f == "type":
            v = ["enum", rng.choice(d["enums"])] if d["enums"] and rng.random() < 0.5 else rng.choice(TYPES + ["bigint"])
        elif f == "default":
            v = rng.choice(DEFAULTS)
        elif f == "comment":
            v = rng.choice([None, "cmt", "c\nd", ""])
        else:
            v = not m[c][f]
        return ["set", c, f, v]
    if r < 0.50:  # notes
        cand = [h for h in allh if m[h]["kind"] in ("table", "column", "index", "project")]
        return ["note", rng.choice(cand), rng.choice(TEXTS), rng.choice(["setter", "text"])]
    if r < 0.62 and d["refs"]:
        x = rng.choice(d["refs"])
        f = rng.choice(["type", "inline", "name", "on_update", "on_delete", "comment"])
        v = {"type": rng.choice(REFTYPES), "inline": not m[x]["inline"], "name": rng.choice([None, "fk1", "fk_new"]),
             "on_update": rng.choice(ACTIONS_EDIT), "on_delete": rng.choice(ACTIONS_EDIT),
             "comment": rng.choice([None, "rc2"])}[f]
        return ["set", x, f, v]
    if r < 0.70 and d["enums"]:
        e = rng.choice(d["enums"])
        rr = rng.random()
        if rr < 0.4:
            f = rng.choice(["name", "schema", "comment"])
            return ["set", e, f, {"name": rng.choice(["en0", "en1", "en_new"]), "schema": rng.choice(SCHEMAS),
                                  "comment": rng.choice([None, "ec2"])}[f]]
        if rr < 0.7:
            return ["add_item", e, rng.choice(["n1", "n2", "x y"])]
        n = rng.randrange(len(m[e]["items"]))
        f = rng.choice(["name", "comment", "note"])
        return ["item", e, n, f, {"name": rng.choice(["a", "zz", "q q"]), "comment": rng.choice([None, "ic2"]),
                                  "note": rng.choice(TEXTS)}[f]]
    if r < 0.76:
        idxs = [i for t in tables for i in m[t]["idxs"]]
        if idxs:
            i = rng.choice(idxs)
            f = rng.choice(["name", "unique", "type", "pk", "comment"])
            v = {"name": rng.choice([None, "ix1", "ix_new"]), "unique": not m[i]["unique"], "type": rng.choice(IDXTYPES),
                 "pk": not m[i]["pk"], "comment": rng.choice([None, "ixc2"])}[f]
            return ["set", i, f, v]
    if r < 0.82:
        t = rng.choice(tables)
        rr = rng.random()
        if rr < 0.4:
            ty: Any = ["enum", rng.choice(d["enums"])] if d["enums"] and rng.random() < 0.3 else rng.choice(TYPES)
            return ["new_column", t, dict(name=rng.choice(COL_POOL + ["added"]), type=ty, pk=rng.random() < 0.2,
                                          unique=rng.random() < 0.2, default=rng.choice(DEFAULTS),
                                          note=rng.choice(["", "cn"]))]
        if rr < 0.75:
            own = m[t]["cols"]
            subs = [["col", c] for c in rng.sample(own, rng.randint(1, min(2, len(own))))] if rng.random() < 0.8 \
                else [["expr", "lower(name)"]]
            return ["new_index", t, dict(subjects=subs, name=rng.choice([None, "ix_added"]), unique=rng.random() < 0.3,
                                         pk=rng.random() < 0.1)]
        n = len(m[t]["idxs"])
        return ["del_index", t, rng.randrange(n) if n else 0, rng.choice(["obj", "pos"])]
    if r < 0.86:
        cand = [h for h in allh if m[h]["kind"] in ("table", "column") and m[h].get("db", True)]
        return ["prop", rng.choice(cand), rng.choice(["tp", "cp", "newp"]), rng.choice([None, "v2", "multi\nline"])]
    if r < 0.89:
        return ["flip_props", db]
    if r < 0.905 and d["project"]:
        p = d["project"]
        if rng.random() < 0.5:
            return ["pitem", p, rng.choice(["author", "k2"]), rng.choice([None, "val", "m\nl"])]
        f = rng.choice(["name", "comment"])
        return ["set", p, f, {"name": rng.choice(["proj", "p two"]), "comment": rng.choice([None, "pc2"])}[f]]
    if r < 0.93 and (d["groups"] or d["notes"]):
        h = rng.choice(d["groups"] + d["notes"])
        if m[h]["kind"] == "group":
            f = rng.choice(["name", "comment", "color", "note"])
            return ["set", h, f, {"name": rng.choice(["g0", "g1", "g_new"]), "comment": rng.choice([None, "gc2"]),
                                  "color": rng.choice(COLORS), "note": rng.choice([None, "gn2", "g\nn"])}[f]]
        f = rng.choice(["name", "text"])
        return ["set", h, f, {"name": rng.choice(["sn0", "sn_new"]), "text": rng.choice(TEXTS)}[f]]
    if r < 0.97:
        rr = rng.random()
        if rr < 0.08:
            cols = [c for t in tables for c in m[t]["cols"]]
            c = rng.choice(cols)
            t1 = m[c]["table"]
            return ["move_column", c, rng.choice(tables)]
        if rr < 0.12:
            cols = [c for t in tables for c in m[t]["cols"]]
            return ["glitch", rng.choice(cols), rng.choice(["type", "name"])]
        if rr < 0.18 and rng.random() < 0.5:
            cols = [c for t in tables for c in m[t]["cols"]]
            if len(cols) > 1:
                a, b = rng.sample(cols, 2)
                return ["share_note", a, b]
        exprs = [(c, 0) for t in tables for c in m[t]["cols"] if isinstance(m[c]["default"], list)] + \
                [(i, k) for t in tables for i in m[t]["idxs"] for k, sb in enumerate(m[i]["subjects"]) if sb[0] == "expr"]
        if exprs and rr < 0.16:
            h, pos = rng.choice(exprs)
            return ["expr_text", h, rng.choice(["now()", "upper(name)", "id*3"]), pos]
        gone = [h for h, dd in m.items() if dd["kind"] in ("table", "ref") and dd.get("db") is None and "col1" in dd or
                dd["kind"] == "table" and dd.get("db") is None]
        if gone and rr < 0.17:
            return ["readd", rng.choice(gone)]
        if rr < 0.2:
            idxs = [i for t in tables for i in m[t]["idxs"]]
            if idxs and len(tables) > 1:
                return ["rejected_add_index", rng.choice(tables), rng.choice(idxs)]
            return ["rejected_add_table", rng.choice(tables)] + (["other-db"] if rng.random() < 0.5 else [])
        if rr < 0.3 and d["groups"]:
            g = rng.choice(d["groups"])
            if rng.random() < 0.5:
                return ["gitem_add", g, rng.choice(tables)]
            n = len(m[g]["items"])
            return ["gitem_del", g, rng.randrange(n) if n else 0]
        if rr < 0.6:
            t = rng.choice(tables)
            return ["del_column", t, rng.randrange(len(m[t]["cols"])), rng.choice(["obj", "pos"])]
        if rr < 0.8 and d["enums"]:
            e = rng.choice(d["enums"])
            return ["del_item", e, rng.randrange(len(m[e]["items"]))]
        return ["del_table", rng.choice(tables)]
    if r < 0.985:
        cols = [c for t in tables for c in m[t]["cols"]]
        c1, c2 = rng.choice(cols), rng.choice(cols)
        return ["new_ref", dict(type=rng.choice(REFTYPES), col1=[c1], col2=[c2], name=rng.choice([None, "fk_added"]),
                                on_delete=rng.choice(ACTIONS), inline=rng.random() < 0.4)]
    if r < 0.995 and d["refs"]:
        return ["del_ref", rng.choice(d["refs"])]
    return ["new_table", dict(name=rng.choice(NAME_POOL + ["fresh_t"]), schema=rng.choice(SCHEMAS),
                              alias=rng.choice([None, "nal"]), note=rng.choice(["", "tn"]),
                              cols=[dict(name="id", type="int", pk=True), dict(name="v", type="text")])]


# ---------------------------------------------------------------------- run / replay

def _initial_checks(eng: C10Engine) -> Optional[str]:
    """Step 0: the realised database must be what the model says and render
    like the API-built one; otherwise the run is discarded as 'precondition'
    (that is C01/C02 territory, not C10)."""
    if eng.precondition_failed:
        return "parse-realisation-failed"
    if eng.via == "api":
        # built through the constructors (possibly with Note objects shared between elements): nothing of the
        # harness can be at fault, so a rendering that differs from an independently built database of the same
        # content is a violation for the empty edit sequence already
        eng.compare({"index": -1, "op": ["construct"]})
        return None
    exp = expected_dump(eng.w, eng.env.renderer_quals)
    got = real_dump(eng.real, eng.kinds)
    if exp != got:
        return "initial-dump-mismatch: " + "; ".join(diff_dumps(exp, got)[:3])
    try:
        eng.compare({"index": -1, "op": ["initial"]})
    except Violation as v:
        return "initial-render-mismatch: " + str(v.detail.get("first"))
    return None


PRUNE = False


def build_engine(env: Env, world: World, via: str) -> Tuple[Optional["C10Engine"], Optional[Dict[str, Any]]]:
    """The consistent schema of the reference model is built through the public constructors and add() calls (or
    parsed): a library error raised by that fresh build is reported, not treated as a harness problem."""
    try:
        return C10Engine(env, world, via), None
    except Exception as ex:
        if not type(ex).__module__.startswith("pydbml"):
            raise
        return None, {"violation": {"property": PROP, "oracle": "construct",
                                    "signature": f"construct:fresh-build-raised:{type(ex).__name__}:{via}",
                                    "detail": {"after": {"index": -1, "op": ["construct", via]}, "raised": repr(ex)[:300]}},
                      "counters": {}, "trace": []}


def run_ops(env: Env, wcomp: Dict[str, Any], ops: List[List[Any]], checks: Optional[List[int]] = None) -> Dict[str, Any]:
    eng, bad = build_engine(env, world_from_json(wcomp["w"]), wcomp["via"])
    if bad:
        return bad
    res: Dict[str, Any] = {"violation": None}
    try:
        pre = _initial_checks(eng)
    except Violation as v:
        res.update({"violation": {"property": v.prop, "oracle": v.oracle, "signature": v.signature, "detail": v.detail},
                    "counters": eng.counters, "trace": []})
        return res
    if pre:
        res["precondition"] = pre
        res["counters"] = {"precondition-discarded": 1}
        res["trace"] = []
        return res
    try:
        for idx, op in enumerate(ops):
            chk = checks is None or idx in checks
            if op and isinstance(op[-1], dict) and "_chk" in op[-1]:
                # the original run compared with a fresh rebuild after a seeded subset of the edits only; a
                # comparison is itself a sequence of render evaluations, so replay keeps the same subset
                chk = op[-1]["_chk"]
                op = op[:-1]
            eng.step(op, idx, chk or idx == len(ops) - 1)
    except Abandon:
        eng.count("abandoned:unexpected-accept")
    except Violation as v:
        res["violation"] = {"property": v.prop, "oracle": v.oracle, "signature": v.signature, "detail": v.detail}
    res["counters"] = eng.counters
    res["trace"] = eng.trace
    return res


def generate(env: Env, rseed: int, thorough: bool):
    from .core import stream
    g = stream(rseed, "workload")
    via = "parse" if g.random() < 0.4 else "api"
    world = gen_world(stream(rseed, "universe"), via == "parse")
    wj = world_to_json(world)
    eng, bad = build_engine(env, world, via)
    if bad:
        return {"w": wj, "via": via}, [], bad
    res: Dict[str, Any] = {"violation": None}
    try:
        pre = _initial_checks(eng)
    except Violation as v:
        res.update({"violation": {"property": v.prop, "oracle": v.oracle, "signature": v.signature, "detail": v.detail},
                    "counters": eng.counters, "trace": []})
        return {"w": wj, "via": via}, [], res
    if via == "parse":
        wj = world_to_json(eng.w) if not pre else wj   # reference order was aligned with the parser's
    if pre:
        res["counters"] = {"precondition-discarded": 1, "precondition:" + pre.split(":")[0]: 1}
        res["trace"] = []
        res["precondition"] = pre
        return {"w": wj, "via": via}, [], res
    nops = g.choice([2, 4, 8, 12, 20, 30, 40])
    pcheck = 1.0 if thorough else g.choice([0.25, 0.5, 1.0])
    ops: List[List[Any]] = []
    checks: List[int] = []
    try:
        tries = 0
        while len(ops) < nops and tries < nops * 5:
            tries += 1
            op = draw_op(g, eng)
            chk = g.random() < pcheck or len(ops) == nops - 1
            st = eng.step(op, len(ops), chk)
            if st != "veto":
                if chk:
                    checks.append(len(ops))
                ops.append(op + [{"_chk": chk}])
        if not checks or checks[-1] != len(ops) - 1:
            eng.compare({"index": len(ops) - 1, "op": ops[-1][:-1] if ops else ["none"]})
    except Abandon:
        eng.count("abandoned:unexpected-accept")
    except Violation as v:
        checks.append(len(ops))
        ops.append(op + [{"_chk": True}])
        res["violation"] = {"property": v.prop, "oracle": v.oracle, "signature": v.signature, "detail": v.detail}
    eng.count("via:" + via)
    res["counters"] = eng.counters
    res["trace"] = eng.trace
    res["state_digest"] = [eng.trace, ops]
    return {"w": wj, "via": via}, ops, res


def nontrivial(res: Dict[str, Any]) -> bool:
    """>= 2 real edits and >= 1 comparison with a fresh rebuild."""
    edits = sum(1 for t in res.get("trace", []) if not t.startswith("render"))
    return edits >= 2 and res["counters"].get("probe:compared-with-fresh-rebuild", 0) >= 1


def coverage(agg: Any, tier: str) -> Dict[str, Any]:
    c = agg.counters
    disc = c.get("precondition-discarded", 0)
    return {
        "rule": "one case = a seeded consistent schema (1-4 tables, enums, references incl. inline/composite/many-to-many, "
                "indexes, groups, notes, project), realised through the constructors (api) or by emitting DBML and "
                "parsing it (parse), plus a seeded history of <= 40 in-place edits and interleaved render evaluations; "
                "after (a seeded subset of, thorough: all) edits every .sql/.dbml of the database and of every element is "
                "compared with a freshly built database of the same content. non-trivial = >= 2 edits and >= 1 "
                "comparison; distinct = distinct (edit trace, op list) digests",
        "precondition_discarded": disc,
        "realised_via": {k[4:]: v for k, v in c.items() if k.startswith("via:")},
        "components": {"real": ["all model classes", "both default renderers", "the parser (parse-realised runs)"],
                       "stub": ["none"]},
        "_level": "exploration",
        "_assumptions": [
            "the fresh database is rendered by the same renderers: a rendering bug that does not depend on history is "
            "invisible here (C02-C04 territory)",
            "edits that would make the model inconsistent (duplicate names, equal references, composite inline) are "
            "vetoed; those belong to C17",
        ],
        "_exit2": ("more than 1% of the runs were discarded by the step-0 precondition" if agg.runs and disc > 0.01 * agg.runs + 2 else None),
    }
