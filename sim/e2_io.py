"""E2 - entry-point / I/O simulator for C12 (DESIGN 4).

One run = one (document, BOM, options, I/O environment) cell exercised through
every documented route.  File routes go through a simulated `open` bound into
pydbml.parser.parser and through real io.TextIOWrapper/io.BufferedReader
objects over a simulated raw device (short reads, tiny buffers, drawn platform
default encoding, optional EIO).  The same bytes also exist as a real file, so
code that reads the path in some other way still sees the same content.
"""
from __future__ import annotations

import builtins
import errno
import io
import os
import pathlib
import shutil
import tempfile
from typing import Any, Dict, List, Optional, Tuple

from . import core
from . import e1_threads as E1

PROP = "C12"
REAL_OPEN = builtins.open
_INSTANCE: Dict[str, Any] = {}
RUNS = {"quick": 2000, "thorough": 20000}
WALL_CAP = {"quick": 300.0, "thorough": 3000.0}
CORPUS = {"quick": (60, 30000), "thorough": (300, 100000)}

ROUTES = ["ctor-str", "ctor-path", "ctor-file", "parse-static", "parse-instance",
          "parse_file-str", "parse_file-path", "parse_file-file"]
OPT_ROUTES = {"ctor-str", "ctor-path", "ctor-file", "parse-static", "parse-instance"}
FILE_ROUTES = {"ctor-path", "ctor-file", "parse_file-str", "parse_file-path", "parse_file-file"}
WRONG_TYPES = ["bytes", "bytearray", "stringio", "bytesio", "int0", "int7", "list", "readable-object", "float",
               "tuple", "binary-file", "dict", "true", "dict-nonempty", "ordereddict", "set", "range", "object", "pathlike"]


class SimRaw(io.RawIOBase):
    """Raw byte device: at most `chunk` bytes per readinto(), optional EIO at
    the k-th read."""

    def __init__(self, data: bytes, chunk: int, fail_at: Optional[int], stats: Dict[str, int]) -> None:
        super().__init__()
        self.data, self.pos, self.chunk, self.fail_at, self.stats = data, 0, max(1, chunk), fail_at, stats
        self.reads = 0

    def readable(self) -> bool:
        return True

    def seekable(self) -> bool:
        return True

    def tell(self) -> int:
        return self.pos

    def seek(self, offset: int, whence: int = 0) -> int:
        base = {0: 0, 1: self.pos, 2: len(self.data)}[whence]
        self.pos = max(0, min(len(self.data), base + offset))
        return self.pos

    def readinto(self, b: Any) -> int:
        self.reads += 1
        if self.fail_at is not None and self.reads >= self.fail_at:
            self.stats["fault:eio-fired"] = self.stats.get("fault:eio-fired", 0) + 1
            raise OSError(errno.EIO, "simulated I/O error")
        n = min(len(b), self.chunk, len(self.data) - self.pos)
        seg = self.data[self.pos:self.pos + n]
        if n and n < len(self.data) - self.pos:
            self.stats["fault:short-read"] = self.stats.get("fault:short-read", 0) + 1
            nxt = self.data[self.pos + n] if self.pos + n < len(self.data) else 0
            if nxt & 0xC0 == 0x80:
                self.stats["probe:short-read-split-multibyte"] = self.stats.get("probe:short-read-split-multibyte", 0) + 1
            if self.pos < 3 and self.pos + n < 3 and self.data[:3] == b"\xef\xbb\xbf":
                self.stats["probe:short-read-split-bom"] = self.stats.get("probe:short-read-split-bom", 0) + 1
        b[:n] = seg
        self.pos += n
        return n


class SimFS:
    def __init__(self, cell: Dict[str, Any], stats: Dict[str, int]) -> None:
        self.cell = cell
        self.stats = stats
        self.files: Dict[str, bytes] = {}

    def register(self, path: str, data: bytes) -> None:
        self.files[os.path.realpath(path)] = data

    def raw(self, data: bytes) -> Any:
        c = self.cell
        raw = SimRaw(data, c["chunk"], c.get("eio_at"), self.stats)
        return io.BufferedReader(raw, buffer_size=c["bufsize"])

    def text(self, data: bytes, encoding: str, **kw: Any) -> io.TextIOWrapper:
        return io.TextIOWrapper(self.raw(data), encoding=encoding, **kw)

    def open(self, file: Any, mode: str = "r", buffering: int = -1, encoding: Optional[str] = None,
             errors: Optional[str] = None, newline: Optional[str] = None, closefd: bool = True, opener: Any = None) -> Any:
        try:
            key = os.path.realpath(os.fspath(file))
        except TypeError:
            key = None
        if key is None or key not in self.files or any(ch in mode for ch in "wax+"):
            return REAL_OPEN(file, mode, buffering, encoding, errors, newline, closefd, opener)
        self.stats["probe:sim-open-used"] = self.stats.get("probe:sim-open-used", 0) + 1
        data = self.files[key]
        if "b" in mode:
            return self.raw(data)
        if encoding is None or encoding == "locale":   # "locale" is what io.text_encoding(None) hands down
            encoding = self.cell["default_encoding"]
            self.stats["fault:platform-default-encoding-applied"] = \
                self.stats.get("fault:platform-default-encoding-applied", 0) + 1
        return io.TextIOWrapper(self.raw(data), encoding=encoding, errors=errors, newline=newline)


def wrong_object(kind: str, tmpdir: str) -> Any:
    if kind == "bytes":
        return b"Table t {\n id int\n}"
    if kind == "bytearray":
        return bytearray(b"Table t {\n id int\n}")
    if kind == "stringio":
        return io.StringIO("Table t {\n id int\n}")
    if kind == "bytesio":
        return io.BytesIO(b"Table t {\n id int\n}")
    if kind == "int0":
        return 0
    if kind == "int7":
        return 7
    if kind == "list":
        return ["Table t {", " id int", "}"]
    if kind == "float":
        return 0.0
    if kind == "tuple":
        return ()
    if kind == "dict":
        return {}
    if kind == "dict-nonempty":
        return {"schema.dbml": "Table t {\n id int\n}"}
    if kind == "ordereddict":
        import collections
        return collections.OrderedDict(a="Table t {\n id int\n}")
    if kind == "set":
        return {"Table t {\n id int\n}"}
    if kind == "range":
        return range(3)
    if kind == "object":
        return object()
    if kind == "pathlike":
        class P:      # os.PathLike but not a pathlib.Path
            def __fspath__(self) -> str:
                return os.path.join(tmpdir, "bin.dbml")
        return P()
    if kind == "true":
        return False
    if kind == "binary-file":
        p = os.path.join(tmpdir, "bin.dbml")
        with REAL_OPEN(p, "wb") as f:
            f.write(b"Table t {\n id int\n}")
        return REAL_OPEN(p, "rb")
    if kind == "readable-object":
        class R:
            def read(self) -> str:
                return "Table t {\n id int\n}"
        return R()
    raise ValueError(kind)


def gen_cell(rseed: int, tier: str) -> Dict[str, Any]:
    g = core.stream(rseed, "workload")
    docs = E1.PREP["docs"]
    nonascii = [d["id"] for d in docs if any(ord(ch) > 127 for ch in d["text"])]
    pr = E1.PREP["pristine"]
    valid = [d["id"] for d in docs if pr[f"{d['id']}:1"][0] == "db"]
    r = g.random()
    big = [i for i in valid if len(docs[i]["text"]) > 8192]
    tiny = [d["id"] for d in docs if d["name"] in ("empty", "only-comment", "blank-lines", "comment-slashes", "comment-tmp")]
    deep = [d["id"] for d in docs if d["name"] in ("nested-40", "recursion-150")]
    if big and r < 0.04:
        doc = g.choice(big)
    elif tiny and r < 0.08:
        doc = g.choice(tiny)   # documents without any element (an empty database on every route)
    elif deep and r < 0.11:
        doc = g.choice(deep)   # documents near / beyond the interpreter's recursion limit (same outcome on every route)
    elif r < 0.35:
        doc = g.choice([i for i in nonascii if i in set(valid)] or valid)
    elif r < 0.75:
        doc = g.choice(valid)
    elif r < 0.85 and nonascii:
        doc = g.choice(nonascii)
    else:
        doc = g.randrange(len(docs))
    f = core.stream(rseed, "faults")
    cell = {
        "doc": doc, "doc_name": docs[doc]["name"], "text": docs[doc]["text"],
        "bom": g.random() < 0.5,
        "ap": g.random() < 0.5, "rend": g.choice(["default", "tagged", "nested", "nested", "bare"]),
        "chunk": f.choice([1, 2, 3, 7, 4096, 1 << 20]), "bufsize": f.choice([1, 2, 5, 16, 8192]),
        "default_encoding": f.choice(["ascii", "latin-1", "cp1252", "utf-8"]),
        "file_encoding_by_caller": f.choice(["utf8", "utf8", "utf8", "utf-8-sig", "latin-1", "cp1252", "utf-16"]),
        "preamble": f.choice([0, 0, 0, 0, 0, 0, 3]),
        "real_fs": f.random() < 0.125,
        "strict_warnings": f.random() < 0.15,
        "eio_at": None,
        "wrong_types": g.sample(WRONG_TYPES, 3) if g.random() < 0.3 else [],
        "fname": f.choice(["schema.dbml", "my schema.dbml", "schéma.dbml", "s.txt"]),
        "eol": f.choice(["\n", "\n", "\n", "\n", "\n", "\r\n", "\r\n", "\r"]),
        "positional": g.random() < 0.25,
        "shared_handle": f.random() < 0.3,
        "omit_defaults": g.random() < 0.5,
        "order": g.sample(ROUTES, len(ROUTES)) if g.random() < 0.7 else list(ROUTES),
        "pristine": {str(a): E1.PREP["pristine"][f"{doc}:{a}"] for a in (0, 1)},
    }
    if f.random() < (0.2 if tier == "thorough" else 0.15):
        cell["eio_at"] = f.choice([1, 1, 2, 3, 5, 20])
        cell["real_fs"] = False
    return cell


def execute(cells: Any) -> Dict[str, Any]:
    """cells: one cell or a list of cells executed one after the other in the
    same process, directory and file name (a history: the file is rewritten)."""
    if isinstance(cells, dict):
        cells = [cells]
    E1._ORDER[0] = 0
    tmp = tempfile.mkdtemp(prefix="verif-e2-")
    out: Dict[str, Any] = {"counters": {}, "violations": [], "results": {}}
    try:
        for k, cell in enumerate(cells):
            c = dict(cell)
            c["fname"] = cells[0]["fname"]
            r = execute_cell(c, tmp)
            for key, v in r["counters"].items():
                out["counters"][key] = out["counters"].get(key, 0) + v
            for v in r["violations"]:
                if k > 0:
                    v = dict(v)
                    v["signature"] = "second-use:" + v["signature"]
                    v["detail"] = {"cell": k, **(v["detail"] if isinstance(v["detail"], dict) else {"d": v["detail"]})}
                out["violations"].append(v)
            out["results"] = r["results"]
            if k > 0:
                out["counters"]["fault:same-path-rewritten"] = out["counters"].get("fault:same-path-rewritten", 0) + 1
    finally:
        shutil.rmtree(tmp, ignore_errors=True)
    return out


def execute_cell(cell: Dict[str, Any], tmp: str) -> Dict[str, Any]:
    st = E1.setup_tree()
    import pydbml.parser.parser as pmod
    PyDBML = st["PyDBML"]
    stats: Dict[str, int] = {}
    violations: List[Dict[str, Any]] = []

    def viol(sig: str, detail: Any) -> None:
        violations.append({"property": PROP, "oracle": sig.split(":")[0], "signature": sig, "detail": detail})

    text = cell["text"]
    eol = cell.get("eol", "\n")
    # the file is saved with the cell's line endings; string routes get what a text-mode read of that file
    # gives (universal newlines), so every route is handed "the same text"
    data = (b"\xef\xbb\xbf" if cell["bom"] else b"") + text.replace("\n", eol).encode("utf8")
    if eol != "\n":
        stats["fault:non-lf-line-endings-in-file"] = 1
    stext = ("\ufeff" if cell["bom"] else "") + text
    fs = SimFS(cell, stats)
    saved_filters = E1.strict_warnings(bool(cell.get("strict_warnings")))
    if saved_filters is not None:
        stats["fault:deprecation-warnings-are-errors"] = 1
    had_open = "open" in vars(pmod)
    saved_open = vars(pmod).get("open")
    try:
        path = os.path.join(tmp, cell["fname"])
        with REAL_OPEN(path, "wb") as fh:
            fh.write(data)
        if not cell["real_fs"]:
            fs.register(path, data)
            pmod.open = fs.open
            # code that reads the path in another way (io.open, Path.read_text, Path.open) meets the same simulated
            # platform: the drawn default encoding applies whenever no encoding is given
            io.open = fs.open
            builtins.open = fs.open
        else:
            stats["fault:real-filesystem-run"] = 1
        kw: Dict[str, Any] = {"allow_properties": cell["ap"]}
        custom = cell["rend"] in E1.CUSTOM
        if custom:
            kw["sql_renderer"], kw["dbml_renderer"] = st["renderers"][cell["rend"]]
        pos: Tuple[Any, ...] = ()
        if cell.get("omit_defaults") and not custom and not cell["ap"]:
            kw = {}      # default options are not passed at all
            stats["fault:options-omitted"] = 1
        elif cell.get("positional"):
            # options passed positionally, in the documented order (allow_properties, sql_renderer, dbml_renderer)
            pos = (cell["ap"],) + ((kw["sql_renderer"], kw["dbml_renderer"]) if custom else ())
            kw = {}
            stats["fault:positional-options"] = 1

        # the caller's own open file may use another codec than UTF-8 (the bytes of *that* file are encoded
        # accordingly) and may already have been read up to some point (a preamble consumed by the caller)
        enc_h = cell["file_encoding_by_caller"]
        try:
            body_h = (("\ufeff" if cell["bom"] else "") + text.replace("\n", eol)).encode(enc_h)
        except UnicodeEncodeError:
            enc_h = "utf8"
            body_h = data
        if enc_h in ("utf8", "utf-8-sig"):
            body_h = data
        npre = int(cell.get("preamble", 0) or 0)
        pre_text = "Table skipped_preamble {\n  id int\n}\n" if npre else ""
        if npre:
            head = pre_text.replace("\n", eol).encode("utf-16-le" if enc_h == "utf-16" else enc_h if enc_h != "utf-8-sig" else "utf8")
            if enc_h == "utf-16":
                data_h = "".join([pre_text.replace("\n", eol), ("\ufeff" if cell["bom"] else "") + text.replace("\n", eol)]).encode("utf-16")
            else:
                data_h = head + body_h
            stats["fault:handle-not-at-start"] = 1
        else:
            data_h = body_h
        if enc_h not in ("utf8", "utf-8-sig"):
            stats["fault:caller-codec-" + enc_h] = 1
        path_h = path + ".handle"
        with REAL_OPEN(path_h, "wb") as fh:
            fh.write(data_h)

        def file_obj() -> Any:
            f = REAL_OPEN(path_h, encoding=enc_h) if cell["real_fs"] else fs.text(data_h, enc_h)
            for _ in range(npre):
                f.readline()
            return f

        shared: Dict[str, Any] = {"f": None}

        def handle() -> Any:
            """The caller's own open file: with `shared_handle` one handle serves both file-object routes
            (rewound in between), as a caller who keeps the file open would do."""
            if not cell.get("shared_handle"):
                return file_obj()
            if shared["f"] is None:
                shared["f"] = file_obj()
                stats["fault:shared-file-handle"] = 1
            else:
                shared["f"].seek(0)
                for _ in range(npre):
                    shared["f"].readline()
            return shared["f"]

        class _keep:
            def __init__(self, f: Any) -> None:
                self.f = f

            def __enter__(self) -> Any:
                return self.f

            def __exit__(self, *a: Any) -> None:
                if not cell.get("shared_handle"):
                    self.f.close()

        def call(route: str) -> Any:
            if route == "ctor-str":
                return PyDBML(stext, *pos, **kw)
            if route == "ctor-path":
                return PyDBML(pathlib.Path(path), *pos, **kw)
            if route == "ctor-file":
                with _keep(handle()) as f:
                    return PyDBML(f, *pos, **kw)
            if route == "parse-static":
                return PyDBML.parse(stext, *pos, **kw)
            if route == "parse-instance":
                # one parser instance is kept for the whole run (all cells): PyDBML() ... .parse(a) ... .parse(b)
                inst = _INSTANCE.get("p")
                if inst is None:
                    inst = _INSTANCE["p"] = PyDBML()
                if type(inst).__name__ == "Database":
                    raise core.HarnessError("PyDBML() returned a Database")
                return inst.parse(stext, *pos, **kw)
            if route == "parse_file-str":
                return PyDBML.parse_file(path)
            if route == "parse_file-path":
                return PyDBML.parse_file(pathlib.Path(path))
            if route == "parse_file-file":
                with _keep(handle()) as f:
                    return PyDBML.parse_file(f)
            raise ValueError(route)

        faulty = cell["eio_at"] is not None
        results: Dict[str, Any] = {}
        for route in cell.get("order", ROUTES):
            ap_eff = cell["ap"] if route in OPT_ROUTES else False
            want = cell["pristine"][str(int(ap_eff))]
            before = stats.get("fault:eio-fired", 0)
            try:
                res, exc = call(route), None
            except core.HarnessError:
                raise
            except Exception as ex:
                res, exc = None, ex
            eio_here = stats.get("fault:eio-fired", 0) > before
            stats["route:" + route] = stats.get("route:" + route, 0) + 1
            ctx = {"route": route, "doc": cell["doc_name"], "bom": cell["bom"], "allow_properties": ap_eff,
                   "renderers": cell["rend"] if route in OPT_ROUTES else "default"}
            if exc is not None:
                results[route] = ["exc", type(exc).__name__]
                if want[0] == "db" and not eio_here:
                    viol("route:valid-doc-raised:" + route, {**ctx, "raised": repr(exc)[:300]})
                continue
            if type(res).__name__ != "Database":
                results[route] = ["other", type(res).__name__]
                viol("route:not-a-database:" + route, {**ctx, "got": type(res).__name__})
                continue
            rend_eff = cell["rend"] if route in OPT_ROUTES else "default"
            full = rend_eff in E1.RENDERED
            wi = E1.WANT.get(rend_eff, 1)
            dig, snap = E1.content_digest(res, full)
            results[route] = ["db", dig]
            if want[0] != "db":
                viol("route:invalid-doc-returned-db:" + route, {**ctx, "reference": want})
                continue
            if dig != want[wi]:
                viol(("route:partial-read-returned-db:" if eio_here else "route:differs-from-reference:") + route,
                     {**ctx, "want": want[wi], "got": dig, "got_summary": E1.summary(snap)})
                continue
            if route in OPT_ROUTES:
                if custom:
                    E1.touch_elements(res)
                wq = st["renderers"][cell["rend"]] if custom else None
                ok = res.allow_properties == cell["ap"]
                if wq is not None:
                    ok = ok and res.sql_renderer is wq[0] and res.dbml_renderer is wq[1]
                else:
                    ok = ok and res.sql_renderer.__name__ == "DefaultSQLRenderer" \
                        and res.dbml_renderer.__name__ == "DefaultDBMLRenderer"
                if not ok:
                    viol("route:options-not-applied:" + route, ctx)
            else:
                if res.allow_properties is not False or res.sql_renderer.__name__ != "DefaultSQLRenderer":
                    viol("route:non-default-options:" + route, ctx)
            stats["ok:route-equals-reference"] = stats.get("ok:route-equals-reference", 0) + 1
        if shared["f"] is not None:
            try:
                shared["f"].close()
            except Exception:
                pass
        for kind in cell["wrong_types"]:
            obj = wrong_object(kind, tmp)
            try:
                r = PyDBML(obj)
                viol("wrong-type:accepted:" + kind, {"kind": kind, "returned": type(r).__name__})
            except TypeError:
                stats["fault:wrong-source-type:" + kind] = stats.get("fault:wrong-source-type:" + kind, 0) + 1
            except Exception as ex:
                viol("wrong-type:other-error:" + kind, {"kind": kind, "raised": repr(ex)[:200]})
            finally:
                if hasattr(obj, "close"):
                    try:
                        obj.close()
                    except Exception:
                        pass
        if cell["bom"]:
            stats["fault:bom"] = 1
        if any(ord(ch) > 127 for ch in text):
            stats["fault:non-ascii-document"] = 1
        if faulty:
            stats["config:fault-injecting"] = 1
        else:
            stats["config:fault-free"] = 1
    finally:
        if saved_filters is not None:
            import warnings
            warnings.filters[:] = saved_filters
            getattr(warnings, "_filters_mutated", lambda: None)()
        io.open = REAL_OPEN
        builtins.open = REAL_OPEN
        if had_open:
            pmod.open = saved_open
        elif "open" in vars(pmod):
            del pmod.open
    return {"counters": stats, "violations": violations, "results": results}


class E2Driver:
    engine = "E2"
    prop = PROP

    def n_runs(self, tier: str) -> int:
        return RUNS[tier]

    def wall_cap(self, tier: str) -> float:
        return WALL_CAP[tier]

    def per_run_timeout(self, tier: str) -> float:
        return 120.0

    def prepare_shard(self, seed: int, tier: str, hashseed: str, prep_dir: Optional[str]) -> None:
        E1.prepare(seed, tier, int(os.environ.get("VERIF_PREP_WORKERS", "8")), calibrate=False,
                   corpus_params=CORPUS[tier])

    def setup_worker(self) -> None:
        E1.setup_tree()

    def run_one(self, i: int, seed: int, tier: str, hashseed: str) -> Dict[str, Any]:
        rseed = core.run_seed(seed, PROP, i)
        cell = gen_cell(rseed, tier)
        cells = [cell]
        if core.stream(rseed, "history").random() < 0.4:
            # a second document saved under the same path afterwards (history over the same file name)
            c2 = gen_cell(core.run_seed(seed, PROP + "/second", i), tier)
            c2["wrong_types"] = []
            cells.append(c2)
            cell = c2
        res = execute(cells)
        out: Dict[str, Any] = {"counters": res["counters"], "distinct": {}}
        key = core.digest([cell["doc"], cell["bom"], cell["ap"], cell["rend"], cell["eol"], cell["positional"], cell["chunk"], cell["bufsize"],
                           cell["default_encoding"], cell["real_fs"], cell["eio_at"], cell["file_encoding_by_caller"]])
        out["distinct"]["history"] = key
        out["distinct"]["nontrivial"] = [core.digest([cell["doc"], cell["bom"], cell["ap"], cell["rend"], r,
                                                      cell["chunk"], cell["bufsize"]]) for r in ROUTES]
        out["counters"]["route-evaluations"] = len(ROUTES)
        if i < 3 or i % 1499 == 0:
            out["sample"] = {"run": i, "cell": {k: v for k, v in cell.items() if k not in ("text", "pristine")},
                             "results": res["results"]}
        if res["violations"]:
            v = res["violations"][0]
            out["violation"] = {"engine": "E2", "property": PROP, "seed": seed, "run": i, "run_seed": rseed,
                                "hashseed": hashseed, "tier": tier, "cells": cells, "violation": v,
                                "all_violations": [x["signature"] for x in res["violations"]], "ops": [None]}
        return out

    def replay(self, payload: Dict[str, Any]) -> Optional[Dict[str, Any]]:
        def fn() -> Dict[str, Any]:
            E1.setup_tree()
            r = execute(payload["cells"] if "cells" in payload else payload["cell"])
            return {"violations": r["violations"]}
        res = core.fork_run(fn, 120.0)
        if res.get("harness"):
            raise core.HarnessError(str(res["harness"]))
        want = payload.get("violation", {}).get("signature")
        for v in res["violations"]:
            if v["signature"] == want:
                return v
        return res["violations"][0] if res["violations"] else None

    def minimize(self, payload: Dict[str, Any]) -> Dict[str, Any]:
        """Shrink the environment of the cell: no BOM, default options, whole
        reads, no wrong types, then the smallest corpus document that still
        fails in the same way."""
        import copy
        sig = payload["violation"]["signature"]
        cells = copy.deepcopy(payload["cells"])
        tests = 0

        def fails_cells(cs: List[Dict[str, Any]]) -> bool:
            nonlocal tests
            tests += 1
            v = self.replay({"cells": cs, "violation": {"signature": sig}})
            return bool(v) and v["signature"] == sig

        if len(cells) > 1 and fails_cells(cells[:1]):
            cells = cells[:1]
        elif len(cells) > 1 and not sig.startswith("second-use:") and fails_cells(cells[1:]):
            cells = cells[1:]
        prefix = cells[:-1]
        cell = cells[-1]

        def fails(c: Dict[str, Any]) -> bool:
            return fails_cells(prefix + [c])

        for k, simple in (("wrong_types", []), ("bom", False), ("ap", False), ("rend", "default"),
                          ("chunk", 1 << 20), ("bufsize", 8192), ("eio_at", None), ("real_fs", False),
                          ("fname", "schema.dbml"), ("file_encoding_by_caller", "utf8"), ("default_encoding", "utf-8"),
                          ("eol", "\n"), ("positional", False), ("shared_handle", False), ("order", list(ROUTES)), ("omit_defaults", False),
                          ("preamble", 0)):
            if cell.get(k) != simple:
                c = dict(cell)
                c[k] = simple
                if fails(c):
                    cell = c
        out = dict(payload)
        out["cells"] = prefix + [cell]
        out["violation"] = self.replay({"cells": out["cells"], "violation": {"signature": sig}}) or payload["violation"]
        out["minimiser_tests"] = tests
        return out

    def coverage(self, agg: Any, tier: str) -> Dict[str, Any]:
        c = agg.counters
        return {
            "rule": "one case = one (document, BOM, allow_properties, renderer classes, read chunking, buffer size, "
                    "platform default encoding, caller's file encoding, real/simulated filesystem, EIO point) cell "
                    "exercised through all 8 documented routes plus wrong source types; distinct_nontrivial = distinct "
                    "(document, BOM, options, route, chunking) tuples evaluated; every route result is compared with "
                    "the pristine reference parse of the same text",
            "route_evaluations": c.get("route-evaluations", 0),
            "routes": {k[6:]: v for k, v in sorted(c.items()) if k.startswith("route:")},
            "configurations": {k[7:]: v for k, v in sorted(c.items()) if k.startswith("config:")},
            "components": {
                "real": ["pydbml entry points and parser", "pyparsing", "io.TextIOWrapper", "io.BufferedReader",
                         "CPython UTF-8 incremental decoder", "real files in a mkdtemp directory (1 run in 8 and as "
                         "backing copy of every simulated file)"],
                "stub": ["raw byte device under the buffered reader (short reads, EIO)",
                         "the name `open` in pydbml.parser.parser (simulated filesystem, platform default encoding)"]},
            "_level": "exploration",
            "_assumptions": [
                "only \\n line endings and at most one leading BOM are generated; files are UTF-8 (the API fixes that)",
                "the reference is a pristine parse by the same code; any disagreement between two routes is the violation",
                "read chunking is absorbed by TextIOWrapper before PyDBML sees the text; the configuration matrix "
                "carries most of this property",
            ],
        }
