"""Batch driver glue for the E3 profiles (C09, C10, C16, C17)."""
from __future__ import annotations

import importlib
from typing import Any, Dict, List, Optional

from . import core

PROFILES = {"C09": "sim.e3_c09", "C10": "sim.e3_c10", "C16": "sim.e3_c16", "C17": "sim.e3_c17"}

_env = None


def env():
    global _env
    if _env is None:
        from .e3_engine import Env
        _env = Env()
    return _env


class E3Driver:
    engine = "E3"

    def __init__(self, prop: str) -> None:
        self.prop = prop
        self.mod = importlib.import_module(PROFILES[prop])

    # ---- batch
    def n_runs(self, tier: str) -> int:
        return self.mod.RUNS[tier]

    def per_run_timeout(self, tier: str) -> float:
        return 120.0

    def wall_cap(self, tier: str) -> float:
        return self.mod.WALL_CAP[tier]

    def coverage(self, agg: Any, tier: str) -> Dict[str, Any]:
        return self.mod.coverage(agg, tier)

    def setup_worker(self) -> None:
        env()

    def run_one(self, i: int, seed: int, tier: str, hashseed: str) -> Dict[str, Any]:
        rseed = core.run_seed(seed, self.prop, i)
        wj, ops, res = self.mod.generate(env(), rseed, tier == "thorough")
        counters = dict(res["counters"])
        trace = res.get("trace", [])
        acc = sum(1 for t in trace if t.endswith(":accepted"))
        rej = sum(1 for t in trace if t.endswith(":rejected"))
        counters["steps"] = len(trace)
        out: Dict[str, Any] = {"counters": counters, "distinct": {}}
        nontrivial = self.mod.nontrivial(res) if hasattr(self.mod, "nontrivial") else (acc >= 1 and rej >= 1)
        hist = core.digest([wj, ops])
        out["distinct"]["history"] = hist
        if nontrivial:
            out["distinct"]["nontrivial"] = core.digest(res.get("state_digest", [trace, ops]))
        if i < 3 or (i % 997 == 0):
            out["sample"] = {"run": i, "ops": ops[:25], "outcomes": trace[:25]}
        if res["violation"]:
            out["violation"] = {
                "engine": "E3", "property": res["violation"]["property"], "seed": seed, "run": i,
                "run_seed": rseed, "hashseed": hashseed, "tier": tier,
                "world": wj, "ops": ops, "violation": res["violation"],
            }
        return out

    # ---- replay / minimise
    def replay(self, payload: Dict[str, Any]) -> Optional[Dict[str, Any]]:
        """Run in a fresh fork; -> violation dict or None."""
        res = core.fork_run(lambda: self.mod.run_ops(env(), payload["world"], payload["ops"]), 120.0)
        if res.get("harness"):
            raise core.HarnessError(res["harness"])
        return res["violation"]

    def minimize(self, payload: Dict[str, Any], budget: int = 400) -> Dict[str, Any]:
        sig = payload["violation"]["signature"]
        ops = list(payload["ops"])
        tests = 0

        def fails(cand: List[Any]) -> bool:
            nonlocal tests
            tests += 1
            v = self.replay({"world": payload["world"], "ops": cand})
            return bool(v) and v["signature"] == sig

        # ddmin over the op list
        n = 2
        while len(ops) >= 2 and tests < budget:
            chunk = max(1, len(ops) // n)
            reduced = False
            for start in range(0, len(ops), chunk):
                cand = ops[:start] + ops[start + chunk:]
                if cand and fails(cand):
                    ops = cand
                    n = max(n - 1, 2)
                    reduced = True
                    break
                if tests >= budget:
                    break
            if not reduced:
                if chunk == 1:
                    break
                n = min(len(ops), n * 2)
        out = dict(payload)
        out["ops"] = ops
        can_prune = getattr(self.mod, "PRUNE", True)
        out["world"] = prune_world(payload["world"], ops) if can_prune and fails_world(self, payload, ops, sig) \
            else payload["world"]
        v = self.replay(out)
        if not v or v["signature"] != sig:  # pruning changed the outcome: keep the unpruned world
            out["world"] = payload["world"]
            v = self.replay(out)
        out["violation"] = v
        out["minimised_from_ops"] = len(payload["ops"])
        out["minimiser_tests"] = tests
        return out


def fails_world(drv: "E3Driver", payload: Dict[str, Any], ops: List[Any], sig: str) -> bool:
    try:
        w = prune_world(payload["world"], ops)
        v = drv.replay({"world": w, "ops": ops})
        return bool(v) and v["signature"] == sig
    except Exception:
        return False


def prune_world(wj: Dict[str, Any], ops: List[Any]) -> Dict[str, Any]:
    """Drop universe objects that the remaining ops cannot reach."""
    m = wj["m"]
    keep = set(h for h, d in m.items() if d["kind"] == "db")
    work = [a for op in ops for a in op if isinstance(a, str) and a in m]
    # handles inside composite arguments ("list:t1,r2")
    work += [x for op in ops for a in op if isinstance(a, str) and ":" in a
             for x in a.split(":", 1)[1].split(",") if x in m]
    # anything contained in a database at the start stays
    for h, d in m.items():
        if d["kind"] == "db":
            for f in ("tables", "refs", "enums", "groups", "notes"):
                work.extend(d[f])
            if d["project"]:
                work.append(d["project"])
    while work:
        h = work.pop()
        if h in keep:
            continue
        keep.add(h)
        d = m[h]
        k = d["kind"]
        if k == "table":
            work.extend(d["cols"])
            work.extend(d["idxs"])
        elif k == "column":
            if d["table"]:
                work.append(d["table"])
            if isinstance(d["type"], list):
                work.append(d["type"][1])
        elif k == "index":
            if d["table"]:
                work.append(d["table"])
            work.extend(s[1] for s in d["subjects"] if s[0] == "col")
        elif k == "ref":
            work.extend(d["col1"])
            work.extend(d["col2"])
        elif k == "group":
            work.extend(d["items"])
    return {"m": {h: d for h, d in m.items() if h in keep}, "n": wj["n"]}
