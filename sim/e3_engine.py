"""E3 - model-operation simulator: shared execution engine.

An Engine holds the reference model (World), the real objects, and applies
symbolic operations to both, comparing outcome and state after every step.
It is used by the generators (profiles), by replay and by the minimiser, so a
replay file (initial world + explicit op list) denotes exactly one execution
and consults no PRNG.
"""
from __future__ import annotations

import json
from typing import Any, Dict, List, Optional, Tuple

from .refmodel import World, realize, expected_dump, real_dump, diff_dumps


class Violation(Exception):
    def __init__(self, prop: str, oracle: str, detail: Any, signature: str = "") -> None:
        super().__init__(f"{prop}:{oracle}: {detail}")
        self.prop = prop
        self.oracle = oracle
        self.detail = detail
        self.signature = signature or oracle


class Env:
    """Everything imported from the tree under test, plus the harness-side
    renderer classes."""

    def __init__(self) -> None:
        from .core import import_repo
        import_repo()
        import pydbml.classes as classes
        import pydbml.exceptions as exc
        from pydbml.database import Database
        from pydbml.renderer.base import BaseRenderer
        from pydbml.renderer.sql.default import DefaultSQLRenderer
        from pydbml.renderer.dbml.default import DefaultDBMLRenderer

        class C:  # namespace
            pass
        for n in classes.__all__:
            setattr(C, n, getattr(classes, n))
        C.Database = Database
        self.C = C
        self.exc = exc
        self.BaseRenderer = BaseRenderer
        self.DefaultSQL = DefaultSQLRenderer
        self.DefaultDBML = DefaultDBMLRenderer
        self.renderers = make_renderers(self)
        from .snapshot import qual
        self.renderer_quals = {k: {n: qual(c) for n, c in v.items()} for k, v in self.renderers.items()}


TAGGED_TYPES_FULL = ("Table", "Column", "Index", "Reference", "Enum", "EnumItem", "Note", "Project",
                     "TableGroup", "StickyNote", "Expression")
TAGGED_TYPES_PARTIAL = ("Table", "Reference", "Note")
ERR_TYPES = ("Enum", "TableGroup")


def tag_text(flavour: str, model: Any) -> str:
    return f"<{flavour}:{type(model).__name__}:{getattr(model, 'name', None)!r}>"


def make_renderers(env: "Env") -> Dict[str, Dict[str, Any]]:
    """Custom renderer classes with their own registries (C16).  'tag' has a
    handler for every model type, 'partial' only for some."""
    Base = env.BaseRenderer
    C = env.C
    out: Dict[str, Dict[str, Any]] = {"sql": {"default": env.DefaultSQL}, "dbml": {"default": env.DefaultDBML}}
    for lang in ("sql", "dbml"):
        # "late" starts like "partial"; further handlers are registered later, through the public decorator,
        # after renderings have already happened (C16 operation late_register)
        for flavour, types in (("tag", TAGGED_TYPES_FULL), ("partial", TAGGED_TYPES_PARTIAL), ("late", TAGGED_TYPES_PARTIAL)):
            fl = f"{flavour}{lang}"

            def render_db(cls, db, _fl=fl):
                return f"<{_fl}:db:" + "|".join(cls.render(t) for t in db.tables) + ">"
            klass = type(f"{flavour.capitalize()}{lang.upper()}Renderer", (Base,),
                         {"model_renderers": {}, "render_db": classmethod(render_db), "__module__": "verif.sim"})
            for tn in types:
                def handler(model, _fl=fl):
                    return tag_text(_fl, model)
                klass.model_renderers[getattr(C, tn)] = handler
            out[lang][flavour] = klass
        # "sub": a partial custom renderer that subclasses the default one, has its own registry and
        # *inherits* render_db (the documented way to customise a few element types)
        fl = f"sub{lang}"
        base = env.DefaultSQL if lang == "sql" else env.DefaultDBML
        klass = type(f"Sub{lang.upper()}Renderer", (base,), {"model_renderers": {}, "__module__": "verif.sim"})
        for tn in TAGGED_TYPES_PARTIAL:
            def handler(model, _fl=fl):
                return tag_text(_fl, model)
            klass.model_renderers[getattr(C, tn)] = handler
        out[lang]["sub"] = klass
        # "nodb": a custom renderer with handlers for every model type but WITHOUT render_db (BaseRenderer's
        # raises NotImplementedError): elements render through it, the database-level text is refused
        fl = f"nodb{lang}"
        klass = type(f"NoDb{lang.upper()}Renderer", (Base,), {"model_renderers": {}, "__module__": "verif.sim"})
        for tn in TAGGED_TYPES_FULL:
            def handler(model, _fl=fl):
                return tag_text(_fl, model)
            klass.model_renderers[getattr(C, tn)] = handler
        out[lang]["nodb"] = klass
        # "err": a full custom renderer whose handlers for Enum and TableGroup fail with AttributeError (a bug in
        # the user's handler): the error has to surface, not to be replaced by some other renderer's text
        fl = f"err{lang}"

        def render_db_err(cls, db, _fl=fl):
            return f"<{_fl}:db:" + "|".join(cls.render(t) for t in db.tables) + ">"
        klass = type(f"Err{lang.upper()}Renderer", (Base,), {"model_renderers": {}, "render_db": classmethod(render_db_err),
                                                           "__module__": "verif.sim"})
        for tn in TAGGED_TYPES_FULL:
            if tn in ERR_TYPES:
                def handler(model, _fl=fl):
                    raise AttributeError(f"{_fl}: handler bug")
            else:
                def handler(model, _fl=fl):
                    return tag_text(_fl, model)
            klass.model_renderers[getattr(C, tn)] = handler
        out[lang]["err"] = klass
    return out


def construct_violation(prop: str, ex: BaseException, via: str) -> Optional[Dict[str, Any]]:
    """The reference model's initial state is built through public constructors and add() calls (or parsed): a
    *library* error raised there is reported as a violation of its own kind, not as a harness problem."""
    if not (type(ex).__module__ or "").startswith("pydbml"):
        return None
    return {"violation": {"property": prop, "oracle": "construct",
                          "signature": f"construct:initial-build-raised:{type(ex).__name__}:{via}",
                          "detail": {"after": {"index": -1, "op": ["construct", via]}, "raised": repr(ex)[:300]}},
            "counters": {}, "trace": []}


class Engine:
    def __init__(self, env: Env, world: World, prop: str, via_add: bool = True,
                 pre: Optional[Dict[str, Any]] = None) -> None:
        self.env = env
        self.w = world
        self.prop = prop
        self.real = realize(world, env.C, env.renderers, via_add=via_add, pre=pre)
        self.kinds = {h: d["kind"] for h, d in world.m.items()}
        self.keys_ever: set = set()
        self.colnames_ever: set = set()
        self.counters: Dict[str, int] = {}
        self.trace: List[str] = []
        self._note_names()

    def count(self, k: str, n: int = 1) -> None:
        self.counters[k] = self.counters.get(k, 0) + n

    def _note_names(self) -> None:
        for h, d in self.w.m.items():
            if d["kind"] == "table":
                self.keys_ever.update(self.w.keys_of(h))
            elif d["kind"] == "column":
                self.colnames_ever.add(d["name"])

    # ------------------------------------------------------------ state check
    def check_state(self, ctx: Any, with_index: bool = True) -> None:
        """with_index=False: the name index (Database.table_dict) is not even read - reading it is an access the
        implementation may react to, so it belongs to the lookup probes and their seeded schedule"""
        exp = expected_dump(self.w, self.env.renderer_quals)
        got = real_dump(self.real, self.kinds, with_index)
        if not with_index:
            for e in exp.values():
                if isinstance(e, dict) and "table_dict" in e:
                    e["table_dict"] = "not read"
        for h, e in exp.items():
            td = e.get("table_dict") if isinstance(e, dict) else None
            if isinstance(td, dict) and "ambiguous" in td:
                # clash state: every key must be present and map to ONE of the tables that carry it
                gd = dict((k, v) for k, v in got[h]["table_dict"]) if isinstance(got.get(h, {}).get("table_dict"), list) else None
                amb = td["ambiguous"]
                ok = gd is not None and set(gd) == set(amb) and all(gd[k] in amb[k] for k in amb)
                if not ok:
                    raise Violation(self.prop, "state", {"after": ctx, "diff": [f"{h}.table_dict: expected every key of "
                                    f"{amb} mapped to one of its tables, got {got[h].get('table_dict')}"]})
                e["table_dict"] = got[h]["table_dict"]
        if exp != got:
            d = diff_dumps(exp, got)
            raise Violation(self.prop, "state", {"after": ctx, "diff": d[:12]})

    def check_lookups(self, ctx: Any) -> None:
        """C09 oracles (c), (d), (f): iteration, positional and keyed lookup."""
        w, real = self.w, self.real
        self._note_names()
        for dbh in w.handles("db"):
            db = real[dbh]
            tabs = w.m[dbh]["tables"]
            it = list(db)
            if len(it) != len(tabs) or any(a is not real[b] for a, b in zip(it, tabs)):
                raise Violation(self.prop, "lookup", {"after": ctx, "what": f"iter({dbh})"})
            for k, t in enumerate(tabs):
                if db[k] is not real[t]:
                    raise Violation(self.prop, "lookup", {"after": ctx, "what": f"{dbh}[{k}]"})
            try:
                db[len(tabs)]
            except Exception:
                pass
            else:
                raise Violation(self.prop, "lookup", {"after": ctx, "what": f"{dbh}[{len(tabs)}] did not raise"})
            keys = w.db_key_candidates(dbh)
            for key in sorted(self.keys_ever):
                want = keys.get(key)
                try:
                    got = db[key]
                except Exception:   # the statement does not name the error of a failed lookup
                    got = None
                if want is None and got is not None:
                    raise Violation(self.prop, "lookup", {"after": ctx, "what": f"{dbh}[{key!r}] answers but no "
                                    "contained table currently has that name or alias"}, "lookup-stale")
                if want is not None and not any(got is real[x] for x in want):
                    raise Violation(self.prop, "lookup", {"after": ctx, "what": f"{dbh}[{key!r}] should find "
                                    f"{want[0] if len(want) == 1 else 'one of ' + str(want)}",
                                    "got": "KeyError" if got is None else "another table"}, "lookup-missing")
        for th in w.handles("table"):
            t = real[th]
            cols = w.m[th]["cols"]
            it = list(t)
            if len(it) != len(cols) or any(a is not real[b] for a, b in zip(it, cols)):
                raise Violation(self.prop, "lookup", {"after": ctx, "what": f"iter({th})"})
            for k, c in enumerate(cols):
                if t[k] is not real[c]:
                    raise Violation(self.prop, "lookup", {"after": ctx, "what": f"{th}[{k}]"})
            for name in sorted(self.colnames_ever):
                want = next((c for c in cols if w.m[c]["name"] == name), None)
                try:
                    got = t[name]
                except Exception:
                    got = None
                g2 = t.get(name)
                if (want is None) != (got is None) or (want is not None and got is not real[want]) or g2 is not got:
                    raise Violation(self.prop, "lookup", {"after": ctx, "what": f"{th}[{name!r}]", "want": want})
            if t.get(len(cols)) is not None:
                raise Violation(self.prop, "lookup", {"after": ctx, "what": f"{th}.get({len(cols)})"})
            sentinel = object()
            if t.get("no such column, surely", sentinel) is not sentinel or t.get(len(cols) + 3, sentinel) is not sentinel:
                raise Violation(self.prop, "lookup", {"after": ctx, "what": f"{th}.get(missing, default) did not return the default"})
            if cols and t.get(self.w.m[cols[-1]]["name"], sentinel) is sentinel:
                raise Violation(self.prop, "lookup", {"after": ctx, "what": f"{th}.get(existing, default) returned the default"})


def world_from_json(j: Dict[str, Any]) -> World:
    w = World()
    w.m = json.loads(json.dumps(j["m"]))
    w._n = dict(j["n"])
    return w


def world_to_json(w: World) -> Dict[str, Any]:
    return {"m": json.loads(json.dumps(w.m)), "n": dict(w._n)}
