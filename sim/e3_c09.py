"""E3 profile C09 - container consistency under add / delete / rename.

Operations (symbolic, JSON):
  ["add", db, h, typed]          db.add(obj) / db.add_<kind>(obj)
  ["add_bad", db, what]          db.add(<unsupported>)
  ["delete", db, h, typed]       db.delete(obj) / db.delete_<kind>(obj)
  ["delete_project", db]
  ["delete_bad", db, what]       db.delete(<unsupported>)
  ["rename", t, field, value]    setattr(table, name|schema|alias, value)
  ["t_add_col", t, c] ["t_add_idx", t, i] ["t_add_bad", t, "col"|"idx", what]
  ["t_del_col", t, c] ["t_del_col_at", t, k] ["t_del_idx", t, i] ["t_del_idx_at", t, k]

Rejected operations are the injected faults.  Semantics come from the C09
statement; where it is silent the operation is vetoed (not issued).
"""
from __future__ import annotations

import random
from typing import Any, Dict, List, Optional, Tuple

from .e3_engine import Engine, Env, Violation, world_to_json, world_from_json, construct_violation
from .refmodel import World

PROP = "C09"
LISTS = {"table": "tables", "ref": "refs", "enum": "enums", "group": "groups", "sticky": "notes"}
TYPED_ADD = {"table": "add_table", "ref": "add_reference", "enum": "add_enum", "group": "add_table_group",
             "sticky": "add_sticky_note", "project": "add_project"}
TYPED_DEL = {"table": "delete_table", "ref": "delete_reference", "enum": "delete_enum",
             "group": "delete_table_group"}


def bad_object(env: Env, what: str) -> Any:
    C = env.C
    return {"str": "public.a", "int": 7, "none": None, "column": C.Column("zz", "int"),
            "note": C.Note("zz"), "index": C.Index(["zz"]), "enumitem": C.EnumItem("zz"),
            "dict": {}, "table": C.Table("zz"), "expression": C.Expression("zz")}[what]


class C09Engine(Engine):
    def __init__(self, env: Env, world: World, prop: str = PROP, pre: Optional[Dict[str, Any]] = None) -> None:
        super().__init__(env, world, prop, via_add=True, pre=pre)

    # ------------------------------------------------------------ expectation
    def expect(self, op: List[Any]) -> Tuple[Any, ...]:
        """-> ("veto", why) | ("reject", fault_kind, [error names] or None for any)
              | ("accept", kind) | ("either", fault_kind, [errs], list_owner, list_field, candidates, may_reject)"""
        w = self.w
        m = w.m
        k = op[0]
        DVE = ["DatabaseValidationError"]
        if k == "add":
            _, db, h, typed = op
            d = m[h]
            kind = d["kind"]
            if kind == "project":
                if d["db"] not in (None, db):
                    return ("veto", "project in another db")
                if m[db]["project"] == h:
                    # setting the project that is set already: accepted or refused, either way it stays the
                    # database's project and stays attached
                    return ("unchanged", "add-project-again", DVE)
                return ("accept", "add-project" + ("-replace" if m[db]["project"] not in (None, h) else ""))
            if d["db"] == db:
                if kind == "sticky":
                    return ("veto", "sticky re-add")
                return ("reject", f"dup-object-{kind}", DVE)
            if d["db"] is not None:
                # contained in another database: the statement is silent about moving without deleting first,
                # unless the add has to be rejected anyway (clash, foreign reference)
                saved = d["db"]
                d["db"] = None
                try:
                    e = self.expect(op)
                finally:
                    d["db"] = saved
                if e[0] == "reject":
                    return ("reject", e[1] + "-owned-elsewhere", e[2])
                return ("veto", "object in another db")
            if kind == "table":
                have = w.db_keys(db)
                fn = w.full_name(h)
                if fn in have:
                    t2 = have[fn]
                    return ("reject", "dup-full-name" if w.full_name(t2) == fn else "name-eq-alias", DVE)
                al = d["alias"]
                if al and al in have:
                    t2 = have[al]
                    return ("reject", "dup-alias" if m[t2]["alias"] == al else "alias-eq-key", DVE)
                return ("accept", "add-table")
            if kind == "ref":
                touches = any(w.col_db(c) == db for c in d["col1"] + d["col2"])
                if not touches:
                    return ("reject", "foreign-ref", DVE)
                sd = [x for x in m[db]["refs"] if w.ref_strict(x) == w.ref_strict(h)]
                nd = [x for x in m[db]["refs"] if w.ref_nominal(x) == w.ref_nominal(h)]
                if bool(sd) != bool(nd):
                    return ("veto", "ambiguous ref equality")
                if sd:
                    twin_inline = any(m[x]["inline"] != d["inline"] for x in sd)
                    return ("reject", "dup-ref-inline-twin" if twin_inline else "dup-ref", DVE)
                return ("accept", "add-ref")
            if kind == "enum":
                for x in m[db]["enums"]:
                    if (m[x]["name"], m[x]["schema"]) == (d["name"], d["schema"]):
                        return ("reject", "dup-enum", DVE)
                return ("accept", "add-enum")
            if kind == "group":
                for x in m[db]["groups"]:
                    if m[x]["name"] == d["name"]:
                        return ("reject", "dup-group", DVE)
                return ("accept", "add-group")
            if kind == "sticky":
                return ("accept", "add-sticky")
            return ("veto", "kind")
        if k == "add_bad":
            return ("reject", "unsupported-add", DVE)
        if k == "delete_bad":
            return ("reject", "unsupported-delete", DVE)
        if k == "delete_project":
            if m[op[1]]["project"] is None:
                return ("reject", "delete-project-none", DVE)
            return ("accept", "delete-project")
        if k == "delete":
            _, db, h, typed = op
            d = m[h]
            kind = d["kind"]
            if kind == "project":
                cur = m[db]["project"]
                if cur is None:
                    return ("reject", "delete-project-none", DVE)
                if cur != h:
                    return ("veto", "delete(P2) while P1 set")
                return ("accept", "delete-project")
            lst = m[db][LISTS[kind]]
            if kind == "sticky":
                if h in lst:
                    # no delete support for sticky notes today ("unsupported type"); a tree that adds it is fine too
                    return ("either", "unsupported-delete", DVE, db, "notes", [h], True)
                return ("reject", "unsupported-delete", DVE)
            twins = [x for x in lst if x != h and w.strict(x) == w.strict(h)]
            if kind == "ref":
                ntw = [x for x in lst if x != h and w.ref_nominal(x) == w.ref_nominal(h)]
                if set(ntw) != set(twins):
                    return ("veto", "ambiguous ref equality")
            if h in lst and not twins:
                return ("accept", f"delete-{kind}")
            if h in lst:
                return ("either", f"delete-{kind}-with-twin", DVE, db, LISTS[kind], [h] + twins, False)
            if twins:
                return ("either", f"delete-absent-{kind}-twin", DVE, db, LISTS[kind], twins, True)
            return ("reject", f"delete-absent-{kind}", DVE)
        if k == "rename":
            t, field, value = op[1], op[2], op[3]
            d = m[t]
            if d["db"]:
                tmp = dict(d)
                tmp[field] = value
                fn = f"{tmp['schema']}.{tmp['name']}"
                keys = [fn] + ([tmp["alias"]] if tmp["alias"] else [])
                have = w.db_keys(d["db"], exclude=t)
                if any(x in have for x in keys):
                    # plain attribute assignment cannot be validated.  Most of these renames are not issued; the
                    # few that are lead to a *clash state* in which a shared key may answer with either table
                    # while every key that only one table carries must still find that table
                    if len(op) > 4 and op[4] == "allow-clash":
                        return ("accept", f"rename-{field}-into-clash")
                    return ("veto", "rename into a used key")
            return ("accept", f"rename-{field}" + ("-contained" if d["db"] else "-detached"))
        if k == "t_add_col":
            _, t, c = op
            if m[c]["table"] is not None:
                return ("veto", "column owned")
            if any(m[x]["name"] == m[c]["name"] for x in m[t]["cols"]):
                return ("veto", "duplicate column name")
            return ("accept", "t-add-col")
        if k == "t_add_bad":
            return ("reject", f"t-add-wrong-type-{op[2]}", ["TypeError"])
        if k == "t_add_idx":
            _, t, i = op
            if m[i]["table"] is not None:
                # owned by a table already: silent in the statement, unless it has to be refused anyway
                for s in m[i]["subjects"]:
                    if s[0] == "col" and m[s[1]]["table"] != t:
                        return ("reject", "index-foreign-col-owned-index", ["ColumnNotFoundError"])
                return ("veto", "index owned")
            for s in m[i]["subjects"]:
                if s[0] == "col" and m[s[1]]["table"] != t:
                    return ("reject", "index-foreign-col" if m[s[1]]["table"] else "index-detached-col",
                            ["ColumnNotFoundError"])
            return ("accept", "t-add-idx")
        if k in ("t_del_col", "t_del_idx"):
            _, t, x = op
            field = "cols" if k == "t_del_col" else "idxs"
            err = ["ColumnNotFoundError"] if k == "t_del_col" else ["IndexNotFoundError"]
            lst = m[t][field]
            twins = [y for y in lst if y != x and w.strict(y) == w.strict(x)]
            if x in lst and not twins:
                return ("accept", k.replace("_", "-"))
            if x in lst:
                return ("either", k.replace("_", "-") + "-with-twin", err, t, field, [x] + twins, False)
            if twins:
                return ("either", k.replace("_", "-") + "-absent-twin", err, t, field, twins, True)
            return ("reject", k.replace("_", "-") + "-absent", err)
        if k == "read":
            return ("accept", "read-" + op[2]) if op[1] in m else ("veto", "unknown handle")
        if k == "t_ctor_foreign_idx":
            # Table(..., indexes=[Index([column of ANOTHER table])]) - refused like add_index refuses it
            if op[1] not in m or m[op[1]]["kind"] != "column" or m[op[1]]["table"] is None:
                return ("veto", "needs an owned column")
            return ("reject", "ctor-index-foreign-col", ["ColumnNotFoundError"])
        if k in ("t_del_col_at", "t_del_idx_at"):
            _, t, pos = op
            field = "cols" if k == "t_del_col_at" else "idxs"
            if 0 <= pos < len(m[t][field]):
                return ("accept", k.replace("_", "-"))
            return ("reject", k.replace("_", "-") + "-out-of-range", None)
        return ("veto", "unknown op")

    # ------------------------------------------------------------ model commit
    def _remove(self, owner: str, field: str, x: str) -> None:
        m = self.w.m
        m[owner][field].remove(x)
        m[x]["db" if m[owner]["kind"] == "db" else "table"] = None

    def commit(self, op: List[Any]) -> None:
        m = self.w.m
        k = op[0]
        if k == "add":
            _, db, h, _typed = op
            kind = m[h]["kind"]
            if kind == "project":
                old = m[db]["project"]
                if old and old != h:
                    m[old]["db"] = None
                m[db]["project"] = h
                m[h]["db"] = db
            else:
                m[db][LISTS[kind]].append(h)
                m[h]["db"] = db
        elif k == "delete_project" or (k == "delete" and m[op[2]]["kind"] == "project"):
            db = op[1]
            old = m[db]["project"]
            m[old]["db"] = None
            m[db]["project"] = None
        elif k == "delete":
            _, db, h, _typed = op
            self._remove(db, LISTS[m[h]["kind"]], h)
        elif k == "rename":
            t, field, value = op[1], op[2], op[3]
            m[t][field] = value
        elif k == "t_add_col":
            self.w.attach_col(op[1], op[2])
        elif k == "t_add_idx":
            self.w.attach_idx(op[1], op[2])
        elif k == "t_del_col":
            self._remove(op[1], "cols", op[2])
        elif k == "t_del_idx":
            self._remove(op[1], "idxs", op[2])
        elif k == "t_del_col_at":
            self._remove(op[1], "cols", m[op[1]]["cols"][op[2]])
        elif k == "t_del_idx_at":
            self._remove(op[1], "idxs", m[op[1]]["idxs"][op[2]])

    # ------------------------------------------------------------ real call
    def call(self, op: List[Any]) -> Any:
        real = self.real
        k = op[0]
        if k == "add":
            _, db, h, typed = op
            f = getattr(real[db], TYPED_ADD[self.kinds[h]] if typed else "add")
            return f(real[h])
        if k in ("add_bad", "delete_bad") and ":" in str(op[2]):
            # a list / tuple of model objects is no supported argument either (nothing of it may be applied)
            shape, hs = op[2].split(":")
            seq = [real[h] for h in hs.split(",") if h]
            arg = tuple(seq) if shape == "tuple" else seq
            return real[op[1]].add(arg) if k == "add_bad" else real[op[1]].delete(arg)
        if k == "add_bad":
            return real[op[1]].add(bad_object(self.env, op[2]))
        if k == "delete_bad":
            return real[op[1]].delete(bad_object(self.env, op[2]))
        if k == "delete_project":
            return real[op[1]].delete_project()
        if k == "delete":
            _, db, h, typed = op
            kind = self.kinds[h]
            if typed and kind in TYPED_DEL:
                return getattr(real[db], TYPED_DEL[kind])(real[h])
            return real[db].delete(real[h])
        if k == "rename":
            setattr(real[op[1]], op[2], op[3])
            return None
        if k == "t_ctor_foreign_idx":
            C = self.env.C
            own = C.Column("own_col", "int")
            subs = [own, self.real[op[1]]] if op[2] else [self.real[op[1]]]
            return C.Table("ctor_probe", columns=[own], indexes=[C.Index(subs, name="bad")])
        if k == "read":
            # evaluating a rendering is a read: whatever it returns or raises, the container must not change
            try:
                getattr(real[op[1]], op[2])
            except Exception:
                self.count("read-raised")
            return None
        if k == "t_add_col":
            return real[op[1]].add_column(real[op[2]])
        if k == "t_add_idx":
            return real[op[1]].add_index(real[op[2]])
        if k == "t_add_bad":
            obj = bad_object(self.env, op[3])
            return real[op[1]].add_column(obj) if op[2] == "col" else real[op[1]].add_index(obj)
        if k == "t_del_col":
            return real[op[1]].delete_column(real[op[2]])
        if k == "t_del_idx":
            return real[op[1]].delete_index(real[op[2]])
        if k == "t_del_col_at":
            return real[op[1]].delete_column(op[2])
        if k == "t_del_idx_at":
            return real[op[1]].delete_index(op[2])
        raise ValueError(op)

    # ------------------------------------------------------------ one step
    def step(self, op: List[Any], idx: int, lookups: bool = True) -> str:
        """-> 'veto' | 'accepted' | 'rejected'; raises Violation."""
        if op and isinstance(op[-1], dict) and "_lk" in op[-1]:
            # replay: the original run probed the lookups after a seeded subset of the operations only (a lookup
            # is itself an access the implementation may react to, e.g. by rebuilding an index)
            lookups = op[-1]["_lk"]
            op = op[:-1]
        e = self.expect(op)
        if e[0] == "veto":
            self.count("veto:" + e[1])
            return "veto"
        ctx = {"index": idx, "op": op}
        try:
            self.call(op)
            outcome: Any = None
        except Exception as ex:  # the call under test failed: that is data, not a harness error
            outcome = ex
        exname = type(outcome).__name__ if outcome is not None else None
        status = ""
        if e[0] == "accept":
            if outcome is not None:
                raise Violation(self.prop, "outcome", {**ctx, "expected": "accepted", "got": repr(outcome)[:200]},
                                f"accept-raised:{op[0]}:{exname}")
            self.commit(op)
            self.count("ok:" + e[1])
            status = "accepted"
        elif e[0] == "unchanged":
            if outcome is not None and exname not in e[2]:
                raise Violation(self.prop, "outcome", {**ctx, "expected": e[2], "fault": e[1], "got": repr(outcome)[:200]},
                                f"wrong-error:{e[1]}:{exname}")
            self.count("fault:" + e[1] + (":accepted" if outcome is None else ":rejected"))
            status = "accepted" if outcome is None else "rejected"
        elif e[0] == "reject":
            if outcome is None:
                raise Violation(self.prop, "outcome", {**ctx, "expected": f"rejected ({e[1]})", "got": "accepted"},
                                f"not-rejected:{e[1]}")
            if e[2] is not None and exname not in e[2]:
                raise Violation(self.prop, "outcome", {**ctx, "expected": e[2], "fault": e[1], "got": repr(outcome)[:200]},
                                f"wrong-error:{e[1]}:{exname}")
            self.count("fault:" + e[1])
            status = "rejected"
        else:  # either
            _, fault, errs, owner, field, cands, may_reject = e
            if outcome is not None:
                if not may_reject or exname not in errs:
                    raise Violation(self.prop, "outcome", {**ctx, "fault": fault, "got": repr(outcome)[:200]},
                                    f"wrong-error:{fault}:{exname}")
                self.count("fault:" + fault + ":rejected")
                status = "rejected"
            else:
                lst_model = self.w.m[owner][field]
                lst_real = getattr(self.real[owner], {"notes": "sticky_notes", "groups": "table_groups",
                                                      "cols": "columns", "idxs": "indexes"}.get(field, field))
                got = [id(x) for x in lst_real]
                hit = None
                for c in cands:
                    want = [id(self.real[x]) for x in lst_model if x != c]
                    if want == got:
                        hit = c
                        break
                if hit is None:
                    raise Violation(self.prop, "state", {**ctx, "fault": fault,
                                                    "what": "did not remove exactly one of the equal candidates"},
                                    f"bad-removal:{fault}")
                self._remove(owner, field, hit)
                self.count("fault:" + fault + ":removed")
                status = "accepted"
        try:
            self.check_state(ctx, lookups)
        except Violation as v:
            v.signature = f"state-after-{status}:{e[1] if e[0] != 'accept' else op[0]}"
            raise
        if lookups:
            self.check_lookups(ctx)
        self.trace.append(f"{op[0]}:{status}")
        return status


# ====================================================================== universe

NAMES = ["a", "b", "c", "a.b"]
SCHEMAS = ["public", "s", "s.a"]
ALIASES = [None, None, "x", "y", "public.a", "s.b", "a", "s.a.b"]
COLSPECS = [("id", "int"), ("v", "varchar"), ("w", "int"), ("id", "varchar"), ("u", "text")]


def gen_universe(rng: random.Random, saturated: bool = False) -> World:
    w = World()
    nt = rng.randint(3, 6) if rng.random() < 0.93 else rng.randint(9, 14)   # now and then a crowded universe
    tables = []
    specs = []
    for k in range(nt):
        if specs and rng.random() < (0.35 if not saturated else 0.5):
            spec = rng.choice(specs)  # equal content, different object
            if rng.random() < 0.4:
                spec = (spec[0], spec[1], rng.choice(ALIASES), spec[3])
            if rng.random() < 0.3:
                # a look-alike whose column list is a proper prefix / extension of the original's
                cols = list(spec[3])
                if len(cols) > 1 and rng.random() < 0.5:
                    cols = cols[:-1]
                else:
                    extra = [c for c in COLSPECS if c[0] not in [x[0] for x in cols]]
                    if extra:
                        cols.append(extra[0])
                spec = (spec[0], spec[1], spec[2], tuple(cols))
        else:
            ncols = rng.randint(1, 3)
            cols = []
            for cs in rng.sample(COLSPECS, 4):
                if cs[0] not in [c[0] for c in cols]:
                    cols.append(cs)
                if len(cols) == ncols:
                    break
            spec = (rng.choice(NAMES[:2] if saturated else NAMES), rng.choice(SCHEMAS), rng.choice(ALIASES), tuple(cols))
        specs.append(spec)
        # notes / comments: near-twins that differ in nothing but a note are NOT equal
        t = w.table(spec[0], schema=spec[1], alias=spec[2], ctor_cols=rng.random() < 0.5,
                    note=rng.choice(["", "", "tn", "other note"]), comment=rng.choice([None, None, "tc"]))
        for cn, ct in spec[3]:
            c = w.column(cn, ct, pk=(cn == "id" and rng.random() < 0.5), note=rng.choice(["", "", "", "cn"]),
                         default=rng.choice([None, None, None, ["expr", "now()"], "now()", 0, "0"]))
            w.attach_col(t, c)
        tables.append(t)
    # loose columns
    for _ in range(rng.randint(1, 3)):
        cn, ct = rng.choice(COLSPECS + [("z", "int")])
        w.column(cn, ct)
    allcols = w.handles("column")
    # indexes: attached and loose, own / expr / string / foreign subjects
    for _ in range(rng.randint(2, 5)):
        t = rng.choice(tables)
        own = w.m[t]["cols"]
        mode = rng.random()
        if mode < 0.55 and own:
            subs = [["col", c] for c in rng.sample(own, rng.randint(1, min(2, len(own))))]
        elif mode < 0.7:
            subs = [["expr", "v*2"]]
        elif mode < 0.8:
            subs = [["str", rng.choice(["id", "v*2"])]]     # a plain string that reads like the expression
        else:
            subs = [["col", rng.choice(allcols)]]
            if own and rng.random() < 0.5:
                subs.append(["col", rng.choice(own)])
        i = w.index(subs, name=rng.choice([None, None, "ix"]), unique=rng.random() < 0.3, pk=rng.random() < 0.1,
                    note=rng.choice(["", "", "in"]))
        if all(s[0] != "col" or w.m[s[1]]["table"] == t for s in subs) and rng.random() < 0.5:
            w.attach_idx(t, i)
    # enums
    especs = []
    for _ in range(rng.randint(2, 4)):
        if especs and rng.random() < 0.3:
            sp = rng.choice(especs)
        else:
            sp = (rng.choice(["e", "f", "x.e", "e"]), rng.choice(["public", "s", "s.x", "s"]),
                  tuple(rng.sample(["p", "q", "r"], rng.randint(1, 2))))
        especs.append(sp)
        w.enum(sp[0], list(sp[2]), schema=sp[1])
    # columns typed by an Enum object; whether that enum is in any database is nobody's business but the caller's
    if rng.random() < 0.4:
        es = w.handles("enum")
        for c in rng.sample(allcols, min(len(allcols), rng.randint(1, 3))):
            w.m[c]["type"] = ["enum", rng.choice(es)]
    # references
    rspecs = []
    for _ in range(rng.randint(3, 8)):
        if rspecs and rng.random() < 0.35:
            sp = list(rng.choice(rspecs))
            if rng.random() < 0.5:
                sp[6] = not sp[6]  # inline twin
            sp = tuple(sp)
        else:
            t1, t2 = rng.choice(tables), rng.choice(tables)
            c1, c2 = w.m[t1]["cols"], w.m[t2]["cols"]
            n = 2 if (len(c1) > 1 and len(c2) > 1 and rng.random() < 0.2) else 1
            sp = (rng.choice([">", "<", "-", "<>"]), tuple(rng.sample(c1, n)), tuple(rng.sample(c2, n)),
                  rng.choice([None, None, "fk"]), rng.choice([None, None, "cascade"]),
                  rng.choice([None, None, "set null"]), rng.random() < 0.3)
            if rng.random() < 0.1:
                sp = (sp[0], (rng.choice(allcols),), sp[2], sp[3], sp[4], sp[5], sp[6])
        rspecs.append(sp)
        w.ref(sp[0], list(sp[1]), list(sp[2]), name=sp[3], on_update=sp[4], on_delete=sp[5], inline=sp[6])
    for _ in range(rng.randint(2, 3)):
        w.group(rng.choice(["g", "h"]), rng.sample(tables, rng.randint(0, min(2, len(tables)))),
                note=rng.choice([None, "gn"]), color=rng.choice([None, "#fff"]))
    for _ in range(rng.randint(2, 3)):
        w.sticky(rng.choice(["n", "m"]), rng.choice(["text", "other", ""]))
    for _ in range(2):
        w.project(rng.choice(["p", "q"]), items={"k": "v"} if rng.random() < 0.5 else None,
                  note=rng.choice(["", "pn"]))
    w.db()
    w.db()
    # a few objects are instances of user-defined subclasses of the library classes (is-a Table, ...)
    for h, d in w.m.items():
        if d["kind"] in ("table", "enum", "ref", "group", "sticky", "project") and rng.random() < 0.12:
            d["subclass"] = True
    return w


OPW = {"add": 30, "delete": 18, "rename": 12, "read": 4, "t_ctor_foreign_idx": 1, "add_bad": 2, "delete_bad": 2, "delete_project": 2,
       "t_add_col": 5, "t_del_col": 5, "t_del_col_at": 3, "t_add_idx": 6, "t_del_idx": 4, "t_del_idx_at": 3,
       "t_add_bad": 2}
BAD = ["str", "int", "column", "note", "index", "enumitem", "dict", "expression"]


def draw_op(rng: random.Random, eng: C09Engine, weights: Dict[str, float]) -> List[Any]:
    w = eng.w
    m = w.m
    kinds = list(weights)
    k = rng.choices(kinds, [weights[x] for x in kinds])[0]
    dbs = w.handles("db")
    db = dbs[0] if rng.random() < 0.75 else rng.choice(dbs)
    tables = w.handles("table")
    if k == "add":
        pool = [h for h, d in m.items() if d["kind"] in ("table", "ref", "enum", "group", "sticky", "project")]
        if db != dbs[0] and rng.random() < 0.6:
            # fill the second database with look-alikes of what the first one holds (two same-content databases)
            mirror = [h for h in pool if m[h].get("db") is None and m[h]["kind"] in ("table", "enum") and
                      any(w.strict(h) == w.strict(x) for x in m[dbs[0]][LISTS[m[h]["kind"]]])]
            if mirror:
                return ["add", db, rng.choice(mirror), rng.random() < 0.5]
        if rng.random() < 0.5:
            pool = [h for h in pool if m[h]["kind"] in ("table", "ref")] or pool
        return ["add", db, rng.choice(pool), rng.random() < 0.5]
    if k == "delete":
        contained = [h for h, d in m.items() if d.get("db") == db and d["kind"] != "db"]
        pool = [h for h, d in m.items() if d["kind"] in ("table", "ref", "enum", "group", "sticky", "project")]
        h = rng.choice(contained) if contained and rng.random() < 0.6 else rng.choice(pool)
        if rng.random() < 0.5:
            # an equal object that lives in ANOTHER database (the same schema loaded twice): only this database
            # may change, the other one keeps its element and the element its back pointer
            lookalikes = [x for x in pool if m[x].get("db") not in (None, db)
                          and any(m[y]["kind"] == m[x]["kind"] and w.strict(y) == w.strict(x) for y in contained)]
            if lookalikes:
                h = rng.choice(lookalikes)
        return ["delete", db, h, rng.random() < 0.5]
    if k == "rename":
        t = rng.choice(tables)
        field = rng.choice(["name", "name", "schema", "alias"])
        pool = {"name": NAMES + ["d", "", "Table"], "schema": SCHEMAS + ["z", ""], "alias": ALIASES + ["", "w", " "]}[field]
        op = ["rename", t, field, rng.choice(pool)]
        if rng.random() < 0.15:
            op.append("allow-clash")
        return op
    if k == "read":
        pool = [h for h, d in m.items() if d["kind"] in ("db", "db", "table", "ref", "enum")]
        h = db if rng.random() < 0.6 else rng.choice(pool)
        return ["read", h, rng.choice(["sql", "dbml"])]
    if k == "t_ctor_foreign_idx":
        return ["t_ctor_foreign_idx", rng.choice(w.handles("column")), rng.random() < 0.5]
    if k in ("add_bad", "delete_bad") and rng.random() < 0.4:
        top = [h for h, d in m.items() if d["kind"] in ("table", "ref", "enum", "group", "sticky", "project")]
        inside = [h for h in top if m[h].get("db") == db]
        outside = [h for h in top if m[h].get("db") is None]
        first = (outside if k == "add_bad" else inside) or top
        seq = rng.sample(first, min(len(first), rng.randint(1, 2)))
        if rng.random() < 0.6 and top:
            seq.append(rng.choice(top))          # ... followed by anything (often something that would be refused)
        return [k, db, rng.choice(["list", "tuple"]) + ":" + ",".join(seq)]
    if k == "add_bad":
        return ["add_bad", db, rng.choice(BAD + ["none", "list:", "tuple:"])]
    if k == "delete_bad":
        return ["delete_bad", db, rng.choice(BAD + ["none", "list:", "tuple:"])]
    if k == "delete_project":
        return ["delete_project", db]
    t = rng.choice(tables)
    if k == "t_add_col":
        return ["t_add_col", t, rng.choice(w.handles("column"))]
    if k == "t_add_idx":
        return ["t_add_idx", t, rng.choice(w.handles("index"))]
    if k == "t_add_bad":
        which = rng.choice(["col", "idx"])
        return ["t_add_bad", t, which, rng.choice(["str", "int", "none", "index" if which == "col" else "column", "table"])]
    if k == "t_del_col":
        own = m[t]["cols"]
        return ["t_del_col", t, rng.choice(own) if own and rng.random() < 0.6 else rng.choice(w.handles("column"))]
    if k == "t_del_idx":
        own = m[t]["idxs"]
        return ["t_del_idx", t, rng.choice(own) if own and rng.random() < 0.6 else rng.choice(w.handles("index"))]
    if k == "t_del_col_at":
        n = len(m[t]["cols"])
        return ["t_del_col_at", t, rng.randrange(0, n) if n and rng.random() < 0.7 else n + rng.randint(0, 2)]
    if k == "t_del_idx_at":
        n = len(m[t]["idxs"])
        return ["t_del_idx_at", t, rng.randrange(0, n) if n and rng.random() < 0.7 else n + rng.randint(0, 2)]
    raise ValueError(k)


def run_ops(env: Env, world_json: Dict[str, Any], ops: List[List[Any]]) -> Dict[str, Any]:
    """Pure replay: initial world + explicit op list -> result (no PRNG)."""
    try:
        eng = C09Engine(env, world_from_json(world_json))
    except Exception as ex:
        bad = construct_violation(PROP, ex, "api")
        if bad is None:
            raise
        return bad
    res: Dict[str, Any] = {"violation": None}
    try:
        eng.check_state({"index": -1, "op": "initial"})
        eng.check_lookups({"index": -1, "op": "initial"})
        for idx, op in enumerate(ops):
            eng.step(op, idx, True if idx == len(ops) - 1 else True)
        if ops:
            eng.check_lookups({"index": len(ops) - 1, "op": "final"})
    except Violation as v:
        res["violation"] = {"property": v.prop, "oracle": v.oracle, "signature": v.signature, "detail": v.detail}
    res["counters"] = eng.counters
    res["trace"] = eng.trace
    return res


def generate(env: Env, rseed: int, thorough: bool) -> Tuple[Dict[str, Any], List[List[Any]], Dict[str, Any]]:
    """Generate one history by running it (the generator needs the model state
    to bias its draws).  Returns (initial world json, issued ops, result)."""
    from .core import stream
    g = stream(rseed, "workload")
    saturated = g.random() < (0.4 if thorough else 0.25)
    world = gen_universe(stream(rseed, "universe"), saturated)
    wj = world_to_json(world)
    try:
        eng = C09Engine(env, world)
    except Exception as ex:
        bad = construct_violation(PROP, ex, "api")
        if bad is None:
            raise
        return wj, [], bad
    nops = g.choice([3, 5, 8, 12, 20, 40] + ([80, 120] if thorough else []))
    weights = {k: v * g.choice([0, 0.5, 1, 1, 2, 4]) for k, v in OPW.items()}
    if not any(weights.values()):
        weights = dict(OPW)
    ops: List[List[Any]] = []
    op: List[Any] = []
    res: Dict[str, Any] = {"violation": None}
    try:
        eng.check_state({"index": -1, "op": "initial"})
        eng.check_lookups({"index": -1, "op": "initial"})
        tries = 0
        p_lookup = g.choice([1.0, 1.0, 0.5, 0.2, 0.05])
        lk = True
        while len(ops) < nops and tries < nops * 6:
            tries += 1
            op = draw_op(g, eng, weights)
            lk = g.random() < p_lookup
            st = eng.step(op, len(ops), lk)
            if st != "veto":
                ops.append(op + [{"_lk": lk}])
        op = []
        if ops:
            eng.check_lookups({"index": len(ops) - 1, "op": "final"})
    except Violation as v:
        if op:
            ops.append(op + [{"_lk": lk}])
        res["violation"] = {"property": v.prop, "oracle": v.oracle, "signature": v.signature, "detail": v.detail}
    res["counters"] = eng.counters
    res["trace"] = eng.trace
    return wj, ops, res


# ====================================================================== batch metadata

RUNS = {"quick": 80000, "thorough": 1000000}
WALL_CAP = {"quick": 240.0, "thorough": 2400.0}

COMPONENTS = {
    "real": ["pydbml.database.Database", "pydbml._classes.* (Table, Column, Index, Reference, Enum, TableGroup, "
             "StickyNote, Project, Note)", "pydbml.exceptions"],
    "stub": ["none: the reference model is an oracle beside the real objects, nothing of PyDBML is replaced"],
}


def coverage(agg: Any, tier: str) -> Dict[str, Any]:
    c = agg.counters
    return {
        "rule": "one case = one seeded universe (3-6 tables with name/alias/content clashes, twins, loose columns, "
                "indexes incl. foreign subjects, enums, references incl. inline twins and foreign ones, groups, notes, "
                "projects, 2 databases) plus a seeded history of <= 40 (thorough: <= 120) container operations, applied "
                "to the real objects and to the reference model with full state + lookup comparison after every "
                "operation. non-trivial = the history contains >= 1 accepted and >= 1 rejected operation; distinct = "
                "distinct digest of (outcome trace, op list).",
        "components": COMPONENTS,
        "oracles": ["outcome class per operation", "identity-aware full-state equality with the reference model after "
                    "every operation (atomicity of rejected operations, back-pointers, table_dict)",
                    "iteration / positional / keyed lookup of every database and table over all names ever used"],
        "_level": "exploration",
        "_assumptions": [
            "the reference model encodes the reading of C09 given in DESIGN.md 5.1; operations whose outcome the "
            "statement leaves open are vetoed and counted under vetoed_ops",
            "histories are sampled (seeded), not enumerated",
        ],
    }
