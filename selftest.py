#!/venv/bin/python
"""Self-tests of the machinery (DESIGN 2.7).

  selftest.py mutants [--only ID,...] [--prop C09] [--no-suite] [--runs N]
      apply each hand-written mutant (and each kept seeded change under
      /verif/seeded/) to a scratch copy of /repo in a mkdtemp directory, run
      the pinned pytest suite there, run the property's check against it
      (VERIF_REPO) and report whether it was caught.  The scratch copy is
      removed afterwards.
  selftest.py determinism [--prop C11] [--seeds N]
      run the same seeds twice (different worker counts, different
      PYTHONHASHSEED classes are part of every batch) and diff the digests.
"""
from __future__ import annotations

import argparse
import glob
import json
import os
import shutil
import subprocess
import sys
import tempfile
import time

HERE = os.path.dirname(os.path.abspath(__file__))
PY = "/venv/bin/python"

# (id, property, file, old, new, expectation about the pinned suite, note)
MUTANTS = [
    # ---------------- C09
    ("c09-revert-table-dict-fix", "C09", "GIT:dae83c4", None, None, "passes", "revert of fix dae83c4"),
    ("c09-revert-delete-twin-fix", "C09", "GIT:5206de2", None, None, "passes", "revert of fix 5206de2"),
    ("c09-no-foreign-ref-guard", "C09", "pydbml/database.py",
     "            raise DatabaseValidationError(\n                'Cannot add reference. At least one of the referenced tables'\n                ' should belong to this database'\n            )",
     "            pass", "passes", "reference foreign to the database accepted"),
    ("c09-append-before-alias-check", "C09", "pydbml/database.py",
     "        if obj.alias and obj.alias in table_dict:\n            raise DatabaseValidationError(f'Table {obj.alias} is already in the database.')\n\n        self._set_database(obj)\n\n        self.tables.append(obj)",
     "        self.tables.append(obj)\n        if obj.alias and obj.alias in table_dict:\n            raise DatabaseValidationError(f'Table {obj.alias} is already in the database.')\n\n        self._set_database(obj)\n",
     "passes", "rejected add leaves the table in the list"),
    ("c09-delete-enum-keeps-pointer", "C09", "pydbml/database.py",
     "        result = self.enums.pop(index)\n        self._unset_database(result)",
     "        result = self.enums.pop(index)", "passes", "removed enum still points to the database"),
    ("c09-sticky-note-no-pointer", "C09", "pydbml/database.py",
     "    def add_sticky_note(self, obj: StickyNote) -> StickyNote:\n        self._set_database(obj)",
     "    def add_sticky_note(self, obj: StickyNote) -> StickyNote:", "passes", "sticky note not linked"),
    ("c09-project-not-detached", "C09", "pydbml/database.py",
     "        if self.project:\n            self.delete_project()\n        self._set_database(obj)",
     "        self._set_database(obj)", "passes", "old project keeps pointing to the database"),
    ("c09-index-foreign-col-accepted", "C09", "pydbml/_classes/table.py",
     "            if isinstance(subject, Column) and subject.table is not self:",
     "            if isinstance(subject, Column) and subject.table is None:", "passes?", "foreign column accepted in index"),
    # ---------------- C11
    ("c11-revert-lock", "C11", "GIT:45d1bc4", None, None, "passes", "revert of fix 45d1bc4"),
    ("c11-no-copy", "C11", "pydbml/parser/parser.py",
     "table_with_properties.copy() if self._allow_properties else table.copy()",
     "table_with_properties if self._allow_properties else table", "passes",
     "parse action accumulates on the shared table element"),
    ("c11-blueprint-parser-on-class", "C11", "pydbml/parser/parser.py",
     "            raise RuntimeError(f\"type unknown: {blueprint}\")\n        blueprint.parser = self",
     "            raise RuntimeError(f\"type unknown: {blueprint}\")\n        type(blueprint).parser = self",
     "passes", "top-level blueprint's parser assigned on the class"),
    ("c11-memoise-parse", "C11", "pydbml/parser/parser.py",
     "        text = remove_bom(text)\n        parser = PyDBMLParser(\n            text,\n            allow_properties=allow_properties,\n            sql_renderer=sql_renderer,\n            dbml_renderer=dbml_renderer,\n        )\n        return parser.parse()",
     "        text = remove_bom(text)\n        key = (text, allow_properties, sql_renderer, dbml_renderer)\n        if key in _MEMO:\n            return _MEMO[key]\n        parser = PyDBMLParser(\n            text,\n            allow_properties=allow_properties,\n            sql_renderer=sql_renderer,\n            dbml_renderer=dbml_renderer,\n        )\n        _MEMO[key] = parser.parse()\n        return _MEMO[key]\n\n\n_MEMO: dict = {}\n\n\nclass _Unused:\n    pass",
     "passes", "results memoised by source text"),
    ("c11-shared-default-properties", "C11", "pydbml/_classes/table.py",
     "        self.properties = properties if properties else {}",
     "        self.properties = properties if properties else _EMPTY", "passes", "shared mutable default dict"),
    ("c11-lock-only-set-syntax", "C11", "pydbml/parser/parser.py",
     "        with _grammar_lock:\n            self._set_syntax()\n            self._syntax.parse_string(self.source, parseAll=True)",
     "        with _grammar_lock:\n            self._set_syntax()\n        self._syntax.parse_string(self.source, parseAll=True)",
     "passes", "lock narrowed to grammar set-up"),
    ("c11-keep-last-parser", "C11", "pydbml/parser/parser.py",
     "        self.build_database()\n        return self.database",
     "        self.build_database()\n        PyDBMLParser.last = self\n        return self.database", "passes",
     "library keeps a reference to the last parser (and its database)"),
    ("c11-intra-line-race", "C11", "pydbml/parser/parser.py",
     "        self.database = Database(\n            allow_properties=self._allow_properties,\n            sql_renderer=self._sql_renderer,\n            dbml_renderer=self._dbml_renderer,\n        )",
     "        PyDBMLParser._db = Database(allow_properties=self._allow_properties, sql_renderer=self._sql_renderer, dbml_renderer=self._dbml_renderer); self.database = PyDBMLParser._db; PyDBMLParser._db = None",
     "passes", "read-modify-write through a class attribute within ONE source line: only opcode-level pre-emption can split it"),
    ("c11-packrat-at-import", "C11", "pydbml/parser/parser.py",
     "_grammar_lock = RLock()", "_grammar_lock = RLock()\npp.ParserElement.enable_packrat()", "passes",
     "planned as a negative control, but with packrat the first (cold) parse of many valid documents raises "
     "RuntimeError while later parses succeed: genuinely history-dependent, so it counts as a positive"),
    ("c11-negative-control-wide-lock", "C11", "pydbml/parser/parser.py",
     "            self._syntax.parse_string(self.source, parseAll=True)\n        self.build_database()",
     "            self._syntax.parse_string(self.source, parseAll=True)\n            self.build_database()", "passes",
     "NEGATIVE CONTROL: the grammar lock also covers build_database; behaviour-preserving, the check must stay silent"),
    # ---------------- C10
    ("c10-full-name-cache", "C10", "pydbml/renderer/sql/default/utils.py",
     "def get_full_name_for_sql(model: Union[Table, Enum]) -> str:\n    if model.schema == 'public':",
     "def get_full_name_for_sql(model: Union[Table, Enum]) -> str:\n    if '_full_name_sql' not in model.__dict__:\n        model.__dict__['_full_name_sql'] = _full_name(model)\n    return model.__dict__['_full_name_sql']\n\n\ndef _full_name(model: Union[Table, Enum]) -> str:\n    if model.schema == 'public':",
     "passes?", "SQL full name cached on the object at first render"),
    ("c10-column-type-memo", "C10", "pydbml/renderer/sql/default/column.py",
     "    if isinstance(model.type, Enum):\n        components.append(get_full_name_for_sql_enum(model.type))",
     "    if isinstance(model.type, Enum):\n        components.append(model.__dict__.setdefault('_enum_sql', get_full_name_for_sql_enum(model.type)))",
     "passes", "enum type name of a column memoised at first SQL render"),
    # ---------------- C16
    ("c16-inverted-attached-test", "C16", "pydbml/_classes/base.py",
     "class DBMLObject:\n    \'\'\'Base class for all DBML objects.\'\'\'\n    @property\n    def dbml(self) -> str:\n        if hasattr(self, 'database') and self.database is not None:",
     "class DBMLObject:\n    \'\'\'Base class for all DBML objects.\'\'\'\n    @property\n    def dbml(self) -> str:\n        if hasattr(self, 'database') and self.database is None:",
     "passes", "DBML dispatch inverted"),
    ("c16-column-database-none", "C16", "pydbml/_classes/column.py",
     "        return self.table.database if self.table else None", "        return None", "passes",
     "columns never see their database"),
    ("c16-unsupported-raises", "C16", "pydbml/renderer/base.py",
     "def unsupported_renderer(model) -> str:\n    return ''",
     "def unsupported_renderer(model) -> str:\n    raise NotImplementedError(type(model))", "fails?",
     "partial renderer fails instead of empty string"),
    ("c16-registry-mutated-on-render", "C16", "pydbml/renderer/base.py",
     "        return cls.model_renderers.get(type(model), cls._unsupported_renderer)(model)  # type: ignore",
     "        return cls.model_renderers.setdefault(type(model), cls._unsupported_renderer)(model)  # type: ignore",
     "passes", "render() registers the fallback handler (registry side effect)"),
    ("c16-parser-drops-dbml-renderer", "C16", "pydbml/parser/parser.py",
     "            sql_renderer=self._sql_renderer,\n            dbml_renderer=self._dbml_renderer,\n        )\n        for enum_bp",
     "            sql_renderer=self._sql_renderer,\n        )\n        for enum_bp", "passes",
     "dbml renderer passed to the parser is not forwarded to the Database"),
    # ---------------- C17
    ("c17-revert-inline-mixed-fix", "C17", "GIT:daaddf0", None, None, "passes", "revert of the inline mixed-reference fix"),
    ("c17-no-validate-in-table1", "C17", "pydbml/_classes/reference.py",
     "    def table1(self) -> Optional[Table]:\n        self._validate()\n", "    def table1(self) -> Optional[Table]:\n",
     "passes", "table1 no longer validates"),
    ("c17-no-validate-for-sql", "C17", "pydbml/renderer/sql/default/reference.py",
     "    validate_for_sql(model)\n\n    if model.type == MANY_TO_MANY:", "    if model.type == MANY_TO_MANY:", "passes",
     "detached endpoint not refused in SQL"),
    ("c17-enum-schema-not-required", "C17", "pydbml/_classes/enum.py",
     "    required_attributes = ('name', 'schema', 'items')", "    required_attributes = ('name', 'items')", "passes",
     "enum without schema renders"),
    ("c17-table-get-refs-empty", "C17", "pydbml/_classes/table.py",
     "        if not self.database:\n            raise UnknownDatabaseError('Database for the table is not set')\n        return [ref for ref",
     "        if not self.database:\n            return []\n        return [ref for ref", "fails?", "detached table answers []"),
    ("c17-column-name-not-required", "C17", "pydbml/_classes/column.py",
     "    required_attributes = ('name', 'type')", "    required_attributes = ('type',)", "passes?", "nameless column renders"),
    # ---------------- C12
    ("c12-no-bom-parse-file", "C12", "pydbml/parser/parser.py",
     "                source = f.read()\n        source = remove_bom(source)\n        parser = PyDBMLParser(source)",
     "                source = f.read()\n        parser = PyDBMLParser(source)", "passes", "BOM not stripped in parse_file"),
    ("c12-no-encoding-ctor", "C12", "pydbml/parser/parser.py",
     "                with open(source_, encoding=\"utf8\") as f:", "                with open(source_) as f:",
     "passes", "platform default encoding for Path sources"),
    ("c12-path-drops-allow-properties", "C12", "pydbml/parser/parser.py",
     "            source = remove_bom(source)\n            return cls.parse(\n                source,\n                allow_properties=allow_properties,",
     "            source = remove_bom(source)\n            return cls.parse(\n                source,\n                allow_properties=allow_properties and not isinstance(source_, Path),",
     "passes", "allow_properties not forwarded for Path sources"),
    ("c12-stream-readline", "C12", "pydbml/parser/parser.py",
     "            elif isinstance(source_, TextIOWrapper):\n                source = source_.read()",
     "            elif isinstance(source_, TextIOWrapper):\n                source = source_.read(8192)", "passes",
     "streams read only up to 8192 characters"),
    ("c12-accept-stringio", "C12", "pydbml/parser/parser.py",
     "            elif isinstance(source_, TextIOWrapper):\n                source = source_.read()",
     "            elif hasattr(source_, 'read'):\n                source = source_.read()", "passes",
     "any readable accepted instead of TypeError"),
]


def run(cmd, **kw):
    return subprocess.run(cmd, capture_output=True, text=True, **kw)


def make_scratch() -> str:
    d = tempfile.mkdtemp(prefix="verif-scratch-")
    shutil.rmtree(d)
    r = run(["git", "-C", "/repo", "worktree", "add", "--detach", "-q", d, "HEAD"])
    if r.returncode != 0:
        raise SystemExit("worktree add failed: " + r.stderr)
    return d


def drop_scratch(d: str) -> None:
    run(["git", "-C", "/repo", "worktree", "remove", "--force", d])
    shutil.rmtree(d, ignore_errors=True)


def apply_mutant(d: str, m) -> None:
    mid, prop, file, old, new, _, _ = m
    if file.startswith("GIT:"):
        r = run(["git", "-C", d, "revert", "--no-commit", file[4:]])
        if r.returncode != 0:
            raise RuntimeError(f"{mid}: revert failed: {r.stderr}")
        return
    if file.startswith("PATCH:"):
        r = run(["git", "-C", d, "apply", file[6:]])
        if r.returncode != 0:
            raise RuntimeError(f"{mid}: patch failed: {r.stderr}")
        return
    p = os.path.join(d, file)
    s = open(p).read()
    if s.count(old) != 1:
        raise RuntimeError(f"{mid}: pattern found {s.count(old)} times in {file}")
    s = s.replace(old, new)
    if "_EMPTY" in new and "_EMPTY = " not in s:
        s = s.replace("class Table(", "_EMPTY: dict = {}\n\n\nclass Table(")
    open(p, "w").write(s)


def seeded_mutants():
    out = []
    for meta in sorted(glob.glob(os.path.join(HERE, "seeded", "*", "meta.json"))):
        d = os.path.dirname(meta)
        j = json.load(open(meta))
        out.append(("seeded-" + os.path.basename(d), j["property"], "PATCH:" + os.path.join(d, "patch.diff"),
                    None, None, "passes", j.get("summary", "")[:100]))
    return out


def cmd_mutants(args) -> int:
    ms = MUTANTS + seeded_mutants()
    if args.only:
        want = set(args.only.split(","))
        ms = [m for m in ms if m[0] in want]
    if args.prop:
        ms = [m for m in ms if m[1] in args.prop.split(",")]
    results = []
    for m in ms:
        mid, prop = m[0], m[1]
        d = make_scratch()
        t0 = time.time()
        try:
            apply_mutant(d, m)
            suite = "skipped"
            if not args.no_suite:
                r = run([PY, "-m", "pytest", "-q", "-p", "no:cacheprovider", "-x", "-q"], cwd=d)
                suite = "passes" if r.returncode == 0 else "FAILS: " + (r.stdout.strip().splitlines() or ["?"])[-1][:80]
            env = dict(os.environ, VERIF_REPO=d, VERIF_REPLAY_DIR=os.path.join(d, ".verif-replays"),
                       VERIF_EVIDENCE_DIR=os.path.join(d, ".verif-evidence"))
            cmd = [PY, os.path.join(HERE, "check.py"), prop, "--tier", args.tier]
            if args.runs:
                cmd += ["--runs", str(args.runs)]
            r = run(cmd, env=env, cwd=HERE)
            viol = [l for l in r.stdout.splitlines() if l.startswith("VIOLATION")]
            sigs = [l.strip() for l in r.stdout.splitlines() if l.strip().startswith("signature:")]
            replay_ok = None
            if viol:
                path = viol[0].split("replay=")[1].strip()
                rr = run([PY, os.path.join(HERE, "check.py"), prop, "--replay", path], env=env, cwd=HERE)
                replay_ok = rr.returncode == 1 and '"reproduced_same_signature": true' in rr.stdout
            results.append({"id": mid, "property": prop, "suite": suite, "exit": r.returncode,
                            "caught": r.returncode == 1, "signatures": sigs[:4], "replay_reproduces": replay_ok,
                            "wall_s": round(time.time() - t0, 1), "note": m[6]})
            print(json.dumps(results[-1]), flush=True)
            if r.returncode not in (0, 1):
                print(r.stdout[-1500:], r.stderr[-1500:])
        except Exception as ex:
            results.append({"id": mid, "property": prop, "error": repr(ex)})
            print(json.dumps(results[-1]), flush=True)
        finally:
            drop_scratch(d)
    if args.out:
        json.dump(results, open(args.out, "w"), indent=1)
    return 0


def cmd_determinism(args) -> int:
    """Same VERIF_SEED, different worker counts and a fresh interpreter: the
    per-run digests collected in the evidence must be identical."""
    bad = 0
    for prop in args.prop.split(","):
        digs = []
        for workers, swap in ((16, ""), (3, ""), (16, "1")):
            d = tempfile.mkdtemp(prefix="verif-det-")
            env = dict(os.environ, VERIF_EVIDENCE_DIR=d, VERIF_REPLAY_DIR=d, VERIF_WORKERS=str(workers),
                       VERIF_DUMP_DIGESTS=os.path.join(d, "digests.json"), VERIF_SWAP_HASHSEEDS=swap)
            r = run([PY, os.path.join(HERE, "check.py"), prop, "--runs", str(args.seeds)], env=env, cwd=HERE)
            try:
                digs.append(json.load(open(os.path.join(d, "digests.json"))))
            except Exception:
                digs.append({"error": r.stdout[-500:] + r.stderr[-500:]})
            shutil.rmtree(d, ignore_errors=True)
        same = digs[0] == digs[1]
        same_hs = digs[0] == digs[2]
        n = len(digs[0].get("history", [])) if isinstance(digs[0], dict) else 0
        print(f"determinism {prop}: runs={args.seeds} distinct-history-digests={n} "
              f"identical-across-worker-counts={same} identical-under-swapped-PYTHONHASHSEED={same_hs}", flush=True)
        if not same:
            bad += 1
    return 1 if bad else 0


def main() -> int:
    ap = argparse.ArgumentParser()
    sub = ap.add_subparsers(dest="cmd", required=True)
    a = sub.add_parser("mutants")
    a.add_argument("--only")
    a.add_argument("--prop")
    a.add_argument("--no-suite", action="store_true")
    a.add_argument("--runs", type=int)
    a.add_argument("--tier", default="quick")
    a.add_argument("--out")
    b = sub.add_parser("determinism")
    b.add_argument("--prop", default="C09,C10,C11,C12,C16,C17")
    b.add_argument("--seeds", type=int, default=200)
    args = ap.parse_args()
    return cmd_mutants(args) if args.cmd == "mutants" else cmd_determinism(args)


if __name__ == "__main__":
    sys.exit(main())
