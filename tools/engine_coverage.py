"""Which lines and branches of pydbml do the six engines execute at all?

    cd /tmp/somewhere && /venv/bin/python -m coverage run --branch --source=/repo/pydbml /verif/tools/engine_coverage.py \
        && /venv/bin/python -m coverage report -m --skip-covered

A line no engine reaches is a blind spot of the generators by construction (DESIGN 10.6).
"""
import sys; sys.path.insert(0,'/verif')
from sim.e3_engine import Env
from sim import e3_c09, e3_c10, e3_c16, e3_c17, core
env=Env()
for mod,prop,n in ((e3_c09,'C09',600),(e3_c10,'C10',300),(e3_c16,'C16',300),(e3_c17,'C17',600)):
    for i in range(n):
        mod.generate(env, core.run_seed(0,prop,i), True)
# E2 + E1 in-process
from sim import e1_threads as E1, e2_io as E2
E1.prepare(0,'quick',8, calibrate=False, corpus_params=E2.CORPUS['quick'])
for i in range(150):
    rseed=core.run_seed(0,'C12',i)
    cell=E2.gen_cell(rseed,'quick'); cell['text']=cell['text'][:6000] if len(cell['text'])>20000 else cell['text']
    try: E2.execute([cell])
    except Exception as e: print('e2', e)
E1.prepare(0,'quick',8, calibrate=False)
for i in range(40):
    rseed=core.run_seed(0,'C11',i)
    wl=E1.gen_workload(rseed,'quick'); wl['trace_dep']=False; wl['opcodes']=False
    import sim.sched as S
    try: E1.execute(wl, S.Policy())
    except Exception as e: print('e1', repr(e)[:200])
