#!/venv/bin/python
"""keep_seeded.py <candidate dir> <name>

Confirm a sub-agent's seeded change in a fresh scratch worktree of /repo
(demo passes on the clean tree, patch applies, pinned suite passes with it,
demo fails with it) and, only then, keep it as /verif/seeded/<name>/.
"""
import json
import os
import shutil
import subprocess
import sys
import tempfile

PY = "/venv/bin/python"
HERE = os.path.dirname(os.path.dirname(os.path.abspath(__file__)))


def run(cmd, **kw):
    return subprocess.run(cmd, capture_output=True, text=True, **kw)


def main() -> int:
    cand, name = sys.argv[1], sys.argv[2]
    d = tempfile.mkdtemp(prefix="verif-seed-")
    shutil.rmtree(d)
    r = run(["git", "-C", "/repo", "worktree", "add", "--detach", "-q", d, "HEAD"])
    assert r.returncode == 0, r.stderr
    ran = []
    try:
        demo = os.path.join(cand, "demo.py")
        r0 = run([PY, demo], cwd=d, timeout=900)
        ran.append({"cmd": "demo.py on clean tree", "exit": r0.returncode, "tail": r0.stdout.strip()[-200:]})
        ra = run(["git", "-C", d, "apply", os.path.join(cand, "patch.diff")])
        ran.append({"cmd": "git apply patch.diff", "exit": ra.returncode, "tail": ra.stderr[-200:]})
        rs = run([PY, "-m", "pytest", "-q", "-p", "no:cacheprovider"], cwd=d, timeout=900)
        ran.append({"cmd": "pytest with change", "exit": rs.returncode, "tail": rs.stdout.strip().splitlines()[-1][-120:]})
        r1 = run([PY, demo], cwd=d, timeout=900)
        ran.append({"cmd": "demo.py with change", "exit": r1.returncode, "tail": r1.stdout.strip()[-300:]})
        ok = r0.returncode == 0 and ra.returncode == 0 and rs.returncode == 0 and r1.returncode != 0
        print(json.dumps(ran, indent=1))
        if not ok:
            print("NOT KEPT")
            return 1
        out = os.path.join(HERE, "seeded", name)
        os.makedirs(out, exist_ok=True)
        shutil.copy(os.path.join(cand, "patch.diff"), out)
        shutil.copy(demo, out)
        meta = json.load(open(os.path.join(cand, "meta.json")))
        meta["confirmed"] = ran
        meta["base_commit"] = run(["git", "-C", "/repo", "rev-parse", "HEAD"]).stdout.strip()
        json.dump(meta, open(os.path.join(out, "meta.json"), "w"), indent=1)
        print("KEPT", out)
        return 0
    finally:
        run(["git", "-C", "/repo", "worktree", "remove", "--force", d])
        shutil.rmtree(d, ignore_errors=True)


if __name__ == "__main__":
    sys.exit(main())
