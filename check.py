#!/venv/bin/python
"""check.py <C09|C10|C11|C12|C16|C17> [--tier quick|thorough] [--replay file]

Exit 0: the property held on everything explored (KNOWN-FINDING lines allowed).
Exit 1: a line `VIOLATION property=<id> replay=<path>` was printed.
Exit 2: harness problem (never reported as a pass and never as a violation).
"""
from __future__ import annotations

import argparse
import json
import os
import shutil
import subprocess
import sys
import tempfile
import time

HERE = os.path.dirname(os.path.abspath(__file__))
if HERE not in sys.path:
    sys.path.insert(0, HERE)

from sim import core  # noqa: E402

E3_PROPS = ("C09", "C10", "C16", "C17")


def driver(prop: str):
    if prop in E3_PROPS:
        from sim.e3_batch import E3Driver
        return E3Driver(prop)
    if prop == "C11":
        from sim.e1_threads import E1Driver
        return E1Driver()
    if prop == "C12":
        from sim.e2_io import E2Driver
        return E2Driver()
    raise SystemExit(f"unknown property {prop}")


def hashseeds(seed: int):
    """Two PYTHONHASHSEED classes per batch: 0 and a seed-derived one."""
    hs = ["0", str(1 + core.run_seed(seed, "hashseed", 0) % 4000000000)]
    if os.environ.get("VERIF_SWAP_HASHSEEDS"):
        hs.reverse()   # self-test: every run index executes under the other hash seed
    return hs


def reexec_with_hashseed(hs: str) -> None:
    if os.environ.get("PYTHONHASHSEED") != hs:
        env = dict(os.environ)
        env["PYTHONHASHSEED"] = hs
        os.execve(sys.executable, [sys.executable] + sys.argv, env)


def run_shard(args) -> int:
    drv = driver(args.prop)
    seed = core.verif_seed()
    n = args.runs
    indices = [i for i in range(args.start, n) if i % args.nshards == args.shard]
    tmp = tempfile.mkdtemp(prefix="verif-shard-")
    try:
        hs = os.environ.get("PYTHONHASHSEED", "")
        if hasattr(drv, "prepare_shard"):
            drv.prepare_shard(seed, args.tier, hs, args.prep_dir)
        agg = core.run_pool(lambda i: drv.run_one(i, seed, args.tier, hs), indices, args.workers,
                            args.wall_cap, drv.per_run_timeout(args.tier), tmp, setup_fn=drv.setup_worker)
        with open(args.out, "w") as f:
            json.dump(agg.to_json(), f)
    finally:
        shutil.rmtree(tmp, ignore_errors=True)
    return 0


def do_replay(args) -> int:
    payload = core.load_replay(args.replay)
    reexec_with_hashseed(str(payload.get("hashseed", "0")))
    drv = driver(payload["property"] if payload.get("property") in E3_PROPS + ("C11", "C12") else args.prop)
    v = drv.replay(payload)
    want = payload.get("violation", {}).get("signature")
    if v:
        same = (v.get("signature") == want) if want else True
        info = {"reproduced_same_signature": same}
        if payload.get("event_digest") and v.get("event_digest"):
            # E1: digest of the complete context-switch trace of the replayed execution
            info["same_event_digest"] = payload["event_digest"] == v["event_digest"]
        if isinstance(payload.get("violation"), dict) and "detail" in payload["violation"]:
            info["same_detail"] = json.dumps(payload["violation"]["detail"], sort_keys=True, default=repr) == \
                json.dumps(v.get("detail"), sort_keys=True, default=repr)
        info["violation"] = v
        print(f"VIOLATION property={v.get('property', args.prop)} replay={os.path.abspath(args.replay)}")
        print(json.dumps(info, indent=1, default=repr)[:6000])
        return core.EXIT_VIOLATION
    print(f"NOT-REPRODUCED property={args.prop} replay={args.replay}")
    return core.EXIT_OK


def main() -> int:
    ap = argparse.ArgumentParser()
    ap.add_argument("prop")
    ap.add_argument("--tier", default=os.environ.get("VERIF_TIER", "quick"), choices=["quick", "thorough"])
    ap.add_argument("--replay")
    ap.add_argument("--runs", type=int)
    ap.add_argument("--start", type=int, default=0, help="first run index (debugging: --start 167 --runs 168)")
    ap.add_argument("--workers", type=int, default=int(os.environ.get("VERIF_WORKERS", "0")) or (os.cpu_count() or 4))
    ap.add_argument("--wall-cap", type=float)
    ap.add_argument("--no-minimize", action="store_true")
    # internal
    ap.add_argument("--shard", type=int)
    ap.add_argument("--nshards", type=int, default=2)
    ap.add_argument("--out")
    ap.add_argument("--prep-dir")
    args = ap.parse_args()

    if args.replay:
        return do_replay(args)
    if args.shard is not None:
        return run_shard(args)

    t0 = time.time()
    seed = core.verif_seed()
    drv = driver(args.prop)
    prop = args.prop
    n = args.runs or drv.n_runs(args.tier)
    wall_cap = args.wall_cap or drv.wall_cap(args.tier)
    print(f"VERIF_SEED={seed} property={prop} tier={args.tier} runs={n} engine={drv.engine} repo={core.REPO}", flush=True)
    hss = hashseeds(seed)
    tmp = tempfile.mkdtemp(prefix="verif-check-")
    agg = core.Agg()
    try:
        per = max(1, args.workers // len(hss))
        procs = []
        for k, hs in enumerate(hss):
            env = dict(os.environ)
            env["PYTHONHASHSEED"] = hs
            env["VERIF_SEED"] = str(seed)
            out = os.path.join(tmp, f"shard{k}.json")
            cmd = [sys.executable, os.path.abspath(__file__), prop, "--tier", args.tier, "--shard", str(k),
                   "--nshards", str(len(hss)), "--runs", str(n), "--start", str(args.start), "--workers", str(per),
                   "--out", out,
                   "--wall-cap", str(wall_cap), "--prep-dir", os.path.join(tmp, f"prep{k}")]
            procs.append((subprocess.Popen(cmd, env=env), out, hs))
        for p, out, hs in procs:
            rc = p.wait()
            if rc != 0 or not os.path.exists(out):
                agg.harness.append({"i": None, "what": f"shard hashseed={hs} exit {rc}"})
                continue
            with open(out) as f:
                agg.merge_json(json.load(f))
        if hasattr(drv, "crosscheck"):
            # the pristine outcome of a document must not depend on PYTHONHASHSEED
            for v in drv.crosscheck([os.path.join(tmp, f"prep{k}") for k in range(len(hss))], hss, seed, args.tier):
                agg.violations.append(v)
    finally:
        shutil.rmtree(tmp, ignore_errors=True)

    if os.environ.get("VERIF_DUMP_DIGESTS"):
        with open(os.environ["VERIF_DUMP_DIGESTS"], "w") as f:
            json.dump({"history": sorted(agg.distinct.get("history", ())),
                       "nontrivial": sorted(agg.distinct.get("nontrivial", ())),
                       "counters": {k: v for k, v in sorted(agg.counters.items())},
                       "violations": sorted(v["violation"]["signature"] + ":" + str(v["run"]) for v in agg.violations)}, f)
    # ------------------------------------------------------------ verdicts
    exit_code = core.EXIT_OK
    by_sig = {}
    for v in sorted(agg.violations, key=lambda v: (len(v.get("ops", [])), v["run"])):
        key = (v["violation"].get("property", prop), v["violation"]["signature"])
        by_sig.setdefault(key, []).append(v)
    known_seen = []
    reported = []
    for (vprop, sig), vs in sorted(by_sig.items()):
        kf = core.match_known(vprop, sig)
        if kf:
            print(f"KNOWN-FINDING: property={vprop} {kf.get('what', sig)} (signature {sig}, {len(vs)} run(s))")
            known_seen.append(sig)
            continue
        v = vs[0]
        orig = core.write_replay(vprop, seed, v["run"], v, suffix="-orig")
        final = orig
        if not args.no_minimize and hasattr(drv, "minimize"):
            try:
                mv = drv.minimize(v)
                final = core.write_replay(vprop, seed, v["run"], mv)
                v = mv
            except Exception as ex:  # minimiser trouble must not hide the violation
                print(f"note: minimisation failed ({ex!r}); reporting the original replay")
        print(f"VIOLATION property={vprop} replay={final}")
        print("  signature: " + sig + f"  ({len(vs)} failing run(s); seeds/runs: {[x['run'] for x in vs[:8]]})")
        print("  detail: " + json.dumps(v["violation"].get("detail"), default=repr)[:1500])
        reported.append(sig)
        exit_code = core.EXIT_VIOLATION
    if agg.harness:
        for h in agg.harness[:10]:
            print(f"HARNESS-PROBLEM run={h['i']}: {str(h['what'])[:2000]}")
        if exit_code == core.EXIT_OK:
            exit_code = core.EXIT_HARNESS
    wall = time.time() - t0
    cov, assumptions, level = drv_coverage(drv, agg, args.tier, n, wall, hss)
    if cov.get("_exit2") and exit_code == core.EXIT_OK:
        print("HARNESS-PROBLEM: " + cov["_exit2"])
        exit_code = core.EXIT_HARNESS
    cov.pop("_exit2", None)
    cov["known_findings_seen"] = known_seen
    cov["violation_signatures"] = reported
    core.write_evidence(prop, args.tier, seed, level, cov, wall, len(reported), assumptions)
    print(f"done: runs={agg.runs} violations={len(reported)} known={len(known_seen)} harness={len(agg.harness)} "
          f"wall={wall:.1f}s exit={exit_code}")
    return exit_code


def drv_coverage(drv, agg, tier, n, wall, hss):
    cov = drv.coverage(agg, tier) if hasattr(drv, "coverage") else {}
    nontrivial = len(agg.distinct.get("nontrivial", ()))
    base = {
        "evaluations": agg.runs,
        "distinct_nontrivial": nontrivial,
        "distinct_histories": len(agg.distinct.get("history", ())),
        "samples": agg.samples[:4],
        "runs_requested": n,
        "runs_per_hour": int(agg.runs / max(wall, 1e-6) * 3600),
        "pythonhashseeds": hss,
        "wall_cap_skipped": agg.counters.get("wall-cap-skipped", 0),
        "fault_kinds_fired": {k[6:]: v for k, v in sorted(agg.counters.items()) if k.startswith("fault:")},
        "accepted_ops": {k[3:]: v for k, v in sorted(agg.counters.items()) if k.startswith("ok:")},
        "vetoed_ops": {k[5:]: v for k, v in sorted(agg.counters.items()) if k.startswith("veto:")},
        "probes": {k[6:]: v for k, v in sorted(agg.counters.items()) if k.startswith("probe:")},
        "logical_steps": agg.counters.get("steps", 0),
        "simulated_time": "n/a (no clock in this codebase); logical time = steps",
        "harness_problems": len(agg.harness),
    }
    base.update(cov)
    level = base.pop("_level", "exploration")
    assumptions = base.pop("_assumptions", [])
    return base, assumptions, level


if __name__ == "__main__":
    sys.exit(main())
